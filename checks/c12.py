"""C12 - batch conversion isolates bad files and is independent of job scheduling.

The textbook case for deterministic simulation: the real drivers
``WriteLAS.convert_dir_or_file_to_las`` (A), ``convert_dir_or_file_to_las_multiprocessing`` under
SimPool with seeded worker counts, schedules and clocks (B, several), and each file on its own in a
fresh process (C) run on identical trees that mix healthy files with damaged and foreign ones.
"""
import os
import sys

from sim import runner, seeds, damage
from worlds import batch

PROPERTY = 'C12'
LEVEL = 'exploration'
RUNS = {'quick': 3600, 'thorough': 60000}
RULE = ('scenario = converter (RP66V1 / LIS / BIT), directory tree of 2..10 generated files (healthy native, damaged native with explicit '
        'stored-byte faults, other formats, LAS/DAT/foreign), conversion configuration (slice/sample, channel subset, reduction, width, '
        'format), and a list of runs: sequential, 1..3 SimPool runs (jobs 1..16, explicit schedule choice list or policy, clock skews), '
        'and every file alone; all executed by the real drivers in forked processes. Non-trivial = at least one reach probe fires '
        '(damaged file present and fault fired, exception inside file typing, exception inside the converter, two inputs mapping to one '
        'output, a worker executing >= 3 tasks, bad file scheduled first, channel subset with overlapping names, jobs > files, jobs == 1); '
        'distinct = distinct shape hash (converter, per-file world/fault kinds, config class, per pool run jobs + hash of the '
        '(worker, op-kind) schedule sequence)')
REAL = ['TotalDepth.LAS.core.WriteLAS.convert_dir_or_file_to_las / convert_dir_or_file_to_las_multiprocessing', 'TotalDepth.util.DirWalk.dirWalk',
        'TotalDepth.BIT.ToLAS.single_bit_path_to_las_path', 'TotalDepth.RP66V1.ToLAS.single_rp66v1_file_to_las', 'TotalDepth.LIS.ToLAS.single_lis_file_to_las',
        'TotalDepth.util.bin_file_type', 'all readers and LAS writers below them', "Python's own file objects on a tmpfs scratch tree"]
STUB = ['multiprocessing.Pool -> sim.simpool.SimPool (real forked workers, parked at intercepted open/makedirs/listdir/getsize/close, '
        'one runs at a time, seeded choice of which)', 'datetime.utcnow / time.perf_counter -> SimClock (per-worker skew, jumps)',
        'input files -> independent producers worlds/{bit,dlis_logical,lis_logical,las,dat,foreign}.py + sim/damage.py']
ASSUMPTIONS = [
    'simulated machine: every process that runs library code has a 4 GiB address space (sim/runner.py MEMORY_LIMIT_BYTES); a request for more fails at once with MemoryError',
    'SimPool models the fork start method with chunk size 1 as the code uses it; spawn is not modelled',
    'ENOSPC/EIO on output are not injected: the statement is about bad input files',
    'of a damaged or foreign file itself nothing is demanded beyond: a result is reported, no exception escapes, no effect on other files',
    'scheduling points are the intercepted file-system calls (open, close of written files, makedirs, mkdir, listdir, getsize, rename/replace, remove/unlink); interleaving '
    'inside buffered write() calls is not explored',
    'step budget per file 6e6 + 4000*len(file) monitored events (PY_START + JUMP)',
]
PROBES = ['output_dir_inside_input_tree', 'dangling_link_in_input_dir', 'allocation_failed_under_memory_limit', 'symlinked_input', 'hidden_or_glob_name', 'damaged_file_fault_fired', 'exception_in_converter', 'failed_after_output_began', 'two_inputs_one_output', 'worker_ge3_tasks',
          'bad_file_first', 'channel_subset_overlap', 'jobs_gt_files', 'jobs_eq_1', 'foreign_file', 'other_format_file', 'subdir', 'ignored_result',
          'schedule_explicit', 'clock_skew', 'healthy_converted']

STEMS = ['a', 'b', 'c', 'A', 'ab', 'well', 'w1', 'B', '.hidden', 'w.v2', 'a_b', 'a b', 'x[1]']
SUBDIRS = ['sub', 'sub', 'Run [2]', '.cache', 'a.dir']
CHANNEL_POOL = {
    'bit': ['COND', 'SN  ', 'SP  ', 'GR  ', 'CAL ', 'TEN ', 'DEPT', 'TIME', 'RHOB', '  GR'],
    'rp66v1': ['DEPT', 'TIME', 'GR', 'CAL', 'TENS', 'RHOB', 'NPHI', 'TDEP', 'INDEX', 'GR ', ' GR'],
    'lis': ['DEPT', 'TIME', 'GR  ', 'CALI', 'TENS', 'RHOB', 'NPHI', 'SP  ', 'ILD '],
}
CONVERTERS_ENABLED = ['bit', 'rp66v1', 'lis']


def setup():
    import importlib
    for name in CONVERTERS_ENABLED:
        importlib.import_module(batch.CONVERTERS[name][0])
    import TotalDepth.LAS.core.WriteLAS  # noqa
    if 'rp66v1' in CONVERTERS_ENABLED:
        from worlds import dlis_logical  # noqa
    if 'lis' in CONVERTERS_ENABLED:
        from worlds import lis_logical  # noqa


def gen_config(rng, converter, names):
    sl = rng.wpick([(4, None), (4, 'slice'), (2, 'sample')])
    if sl == 'slice':
        sl = ['slice', rng.pick([None, 0, 1, 2, 5]), rng.pick([None, None, 3, 7, 20, -1]), rng.pick([None, 1, 2, 3, 4, 7])]
    elif sl == 'sample':
        sl = ['sample', rng.pick([1, 2, 3, 5, 8, 64])]
    if rng.chance(0.5):
        chans = []
    else:
        chans = sorted(set(rng.sample(names, rng.randrange(1, min(4, len(names)) + 1)) + (['NOPE'] if rng.chance(0.3) else [])))
    return {'slice': sl, 'channels': chans, 'reduce': rng.pick(['first', 'mean', 'median', 'min', 'max']),
            'width': rng.pick([16, 16, 12, 8, 20]), 'fmt': rng.pick(['.3f', '.3f', '.1f', '.6f', '.0f'])}


def gen_files(rng, converter, names, tier):
    native = batch.NATIVE_WORLD[converter]
    n = rng.wpick([(3, 2), (5, rng.randrange(3, 6)), (2, rng.randrange(5, 11))])
    files = []
    used = set()
    others = [w for w in ('bit', 'las', 'dat', 'dlis_phys', 'lis_phys') if w != native]
    for _ in range(n):
        kind = rng.wpick([(5, 'native'), (3, 'damaged'), (1, 'other'), (1, 'foreign'), (2, 'sibling')])
        earlier = [f for f in files if f['gen']['world'] == native and 'variant' not in f['gen']]
        if kind == 'sibling' and not earlier:
            kind = 'native'
        world = native if kind in ('native', 'damaged', 'sibling') else (rng.pick(others) if kind == 'other' else 'foreign')
        for _try in range(20):
            stem = rng.pick(STEMS)
            ext = rng.pick(batch.EXT[native]) if rng.chance(0.7) else rng.pick(batch.EXT.get(world, ['']))
            sub = (rng.pick(SUBDIRS) + '/') if rng.chance(0.2) else ''
            path = sub + stem + ext
            # a path may neither repeat nor be a directory prefix of another
            if path not in used and path.lower() not in {u.lower() + '/x' for u in used}:
                break
        else:
            continue
        used.add(path)
        gen = {'world': world, 'seed': rng.getrandbits(32)}
        if world in ('bit', 'dlis', 'lis'):
            if world == native:
                gen['names'] = names
            gen['frames'] = rng.pick([3, 8, 20, 40])
        if world == 'foreign':
            from worlds import foreign
            gen['kind'] = rng.pick(foreign.KINDS)
            gen['size'] = rng.randrange(0, 3000)
        if kind == 'sibling':
            # the same log delivered again (other name, same identity and structure) with corrected values, or simply a copy
            gen = dict(rng.pick(earlier)['gen'])
            if rng.chance(0.8):
                gen['variant'] = rng.randrange(1, 1 << 16)
        spec = {'path': path, 'gen': gen}
        if rng.chance(0.08):
            spec['symlink'] = True
        if kind == 'other' and world in ('las', 'dat') and rng.chance(0.4):
            # a neighbouring text file of another vendor, or a damaged one: a key token of its first lines is off
            by, fields, _ = batch.file_content(gen)
            spec['faults'] = [damage.gen_fault(rng, len(by), fields, kinds=['char_sub', 'char_sub', 'stretch_token', 'truncate', 'bitflip'])]
        if kind == 'damaged':
            by, fields, _ = batch.file_content(gen)
            nf = rng.wpick([(6, 1), (2, 2), (1, 3)])
            if rng.chance(0.35) and any(f[2].startswith('val') for f in fields):
                # structure intact, one stored metadata value wrong: the file is accepted, indexed and read, and fails late
                spec['faults'] = [damage.gen_fault(rng, len(by), fields, kinds=['value_damage'])]
            else:
                spec['faults'] = [damage.gen_fault(rng, len(by), fields) for _ in range(nf)]
        files.append(spec)
    if rng.chance(0.06):
        for _try in range(10):
            path = ((rng.pick(SUBDIRS) + '/') if rng.chance(0.2) else '') + rng.pick(STEMS) + rng.pick(batch.EXT[native])
            if path not in used and path.lower() not in {u.lower() + '/x' for u in used}:
                used.add(path)
                files.append({'path': path, 'dangling': rng.pick(['gone', 'gone', 'loop']), 'gen': {'world': 'foreign', 'seed': 0}})
                break
    dirs = {f['path'].split('/')[0] for f in files if '/' in f['path']}
    files = [f for f in files if f['path'] not in dirs]
    return files


def gen_runs(rng, nfiles):
    runs = [{'mode': 'seq', 'clock': {'base': 0.0}}]
    for k in range(rng.wpick([(4, 1), (3, 2), (1, 3)])):
        jobs = rng.wpick([(2, 1), (3, 2), (3, rng.randrange(2, 6)), (1, rng.randrange(6, 17))])
        sched = rng.wpick([(5, 'explicit'), (1, 'fifo'), (1, 'lifo'), (1, 'rr'), (1, 'finish-first'), (1, 'assign-first')])
        if sched == 'explicit':
            sched = [rng.randrange(0, 16) for _ in range(40 + 20 * nfiles)]
        clock = {'base': 1000.0 * (k + 1), 'delta': rng.pick([0.25, 0.001, 30.0])}
        if rng.chance(0.6):
            clock['skew'] = [rng.pick([0.0, 3600.5, -7200.25, 86400.0, 0.001]) for _ in range(jobs)]
        if rng.chance(0.2):
            clock['jumps'] = {str(rng.randrange(1, 6)): rng.pick([-3600.0, 86400.0 * 365])}
        runs.append({'mode': 'pool', 'jobs': jobs, 'schedule': sched, 'clock': clock})
    runs.append({'mode': 'alone', 'clock': {'base': 500000.0}})
    return runs


def generate(seed, tier):
    rng = seeds.Rng(seed)
    converter = rng.pick(CONVERTERS_ENABLED)
    pool = CHANNEL_POOL[converter]
    names = rng.sample(pool, rng.randrange(3, len(pool) + 1))
    files = gen_files(rng, converter, names, tier)
    sc = {'world': 'batch', 'converter': converter, 'recurse': rng.chance(0.6), 'config': gen_config(rng, converter, names),
          'files': files, 'runs': gen_runs(rng, len(files))}
    if rng.chance(0.25):
        sc['relative_paths'] = True      # relative input and output paths, working directory = their parent
    if rng.chance(0.12):
        sc['out_inside'] = 'LAS_OUT'     # the output directory is a not yet existing sub-directory of the input directory
    return sc


# ------------------------------------------------------------------------------------------------
def _strip(r):
    return {k: v for k, v in r.items() if k != 'time'}


def execute(scenario):
    res = runner.Result()
    br = batch.BatchRun(scenario)
    try:
        return _execute(scenario, res, br)
    finally:
        br.cleanup()


def _execute(scenario, res, br):
    conv = scenario['converter']
    cfg = scenario['config']
    inputs = br.inputs
    meta = br.meta
    facts0 = {'converter': conv}
    for rel in inputs:
        m = meta[rel]
        if m['faulted'] and m['fault_fired']:
            res.probe('damaged_file_fault_fired')
            for k in m['fault_kinds']:
                res.fault(k)
        if m['world'] == 'foreign':
            res.probe('foreign_file')
        elif m['world'] != batch.NATIVE_WORLD[conv]:
            res.probe('other_format_file')
        if '/' in rel:
            res.probe('subdir')
        if any(part.startswith('.') or '[' in part for part in rel.split('/')):
            res.probe('hidden_or_glob_name')
    if cfg['channels']:
        res.probe('channel_subset_overlap')
    if any(f.get('symlink') for f in scenario['files']):
        res.probe('symlinked_input')
    if scenario.get('out_inside'):
        res.probe('output_dir_inside_input_tree')
    if any(f.get('dangling') for f in scenario['files']):
        res.probe('dangling_link_in_input_dir')

    runs = {}
    alone = None
    shape_runs = []
    for k, run in enumerate(scenario['runs']):
        name = f'r{k}-{run["mode"]}'
        res.op(run['mode'])
        if run['mode'] == 'alone':
            alone = {}
            for rel in inputs:
                r = br.run(f'{name}-{len(alone)}', run, alone=rel)
                alone[rel] = r
                res.sim_time += r.get('sim_time', 0.0)
                res.ev('alone', rel, r['status'], r.get('where'), sorted(r['results'].items()), sorted((p, seeds.digest(t)) for p, t in r['tree'].items()))
            continue
        r = br.run(name, run)
        runs[name] = (run, r)
        res.sim_time += r.get('sim_time', 0.0)
        res.ev(name, r['status'], r.get('where'), r['trace_digest'], sorted(r['results'].items()),
               sorted((p, seeds.digest(t)) for p, t in r['tree'].items()))
        for op, n in r.get('fs_ops', {}).items():
            res.op('fs:' + op, n)
        if run['mode'] == 'pool':
            shape_runs.append((run['jobs'], r['schedule_sig']))
            if run['jobs'] > len(inputs):
                res.probe('jobs_gt_files')
            if run['jobs'] == 1:
                res.probe('jobs_eq_1')
            if isinstance(run.get('schedule'), list):
                res.probe('schedule_explicit')
            if run.get('clock', {}).get('skew'):
                res.probe('clock_skew')
            if r.get('tasks_per_worker') and r['tasks_per_worker'][0] >= 3:
                res.probe('worker_ge3_tasks')
            top = sorted((meta[i]['size'], i) for i in inputs if '/' not in i)
            if top and meta[top[0][1]]['faulted']:
                res.probe('bad_file_first')

    # ---- (1) every run returns
    for name, (run, r) in runs.items():
        if r['status'] != 'ok':
            where = r.get('where', '')
            if 'bin_file_type' in where or 'binary_file_type' in r.get('traceback', ''):
                res.probe('exception_in_file_typing')
            cls = {'exception': 'batch-aborted', 'budget': 'batch-no-progress', 'worker-died': 'batch-worker-died'}[r['status']]
            res.violation(cls, f'{name} (jobs={run.get("jobs")}): {r.get("detail")} at {where}; every other result is lost',
                          mode=run['mode'], exc=r.get('exc'), where=where, **facts0)
    if alone is not None:
        for rel, r in alone.items():
            if r['status'] != 'ok':
                where = r.get('where', '')
                if 'bin_file_type' in where or 'binary_file_type' in r.get('traceback', ''):
                    res.probe('exception_in_file_typing')
                cls = {'exception': 'file-raises', 'budget': 'file-no-progress', 'worker-died': 'file-worker-died'}[r['status']]
                res.violation(cls, f'converting {rel} ({meta[rel]["world"]}, faults {meta[rel]["fault_kinds"]}) on its own: {r.get("detail")} at {where}',
                              mode='alone', exc=r.get('exc'), where=where, file_world=meta[rel]['world'], faulted=meta[rel]['faulted'], **facts0)

    ok_runs = {n: rr for n, rr in runs.items() if rr[1]['status'] == 'ok'}
    # ---- (2) one result per input file
    for name, (run, r) in ok_runs.items():
        got = sorted(r['results'])
        if got != inputs:
            res.violation('result-keys', f'{name}: results for {got}, input files are {inputs}', mode=run['mode'],
                          missing=len(set(inputs) - set(got)), extra=len(set(got) - set(inputs)), **facts0)
        for rel, rr in r['results'].items():
            if rr['path_input'] != rel:
                res.violation('result-path', f'{name}: result stored under {rel} names input {rr["path_input"]}', mode=run['mode'], **facts0)
    # ---- probes on results
    ref = None
    if alone is not None:
        ref = {rel: (r['results'].get(rel) if r['status'] == 'ok' else None) for rel, r in alone.items()}
        for rel, rr in ref.items():
            if rr is None:
                continue
            if rr['exception']:
                res.probe('exception_in_converter')
                if alone[rel]['tree']:
                    # the conversion failed after it had begun to write output: the failures that can leave something behind
                    res.probe('failed_after_output_began')
            if rr['ignored']:
                res.probe('ignored_result')
            if rr['las_count'] and not rr['exception'] and not meta[rel]['faulted']:
                res.probe('healthy_converted')
        # two inputs mapping to one output
        owner = {}
        collisions = set()
        colliding_inputs = set()
        for rel, r in alone.items():
            for p in r['tree']:
                if p in owner and owner[p] != rel:
                    collisions.add(p)
                    colliding_inputs.update((owner[p], rel))
                    res.probe('two_inputs_one_output')
                    res.violation('output-collision', f'inputs {owner[p]} and {rel} both write output {p}; the survivor depends on processing order',
                                  same_stem=os.path.splitext(owner[p])[0] == os.path.splitext(rel)[0], **facts0)
                owner.setdefault(p, rel)
        union = {}
        for rel, r in alone.items():
            for p, t in r['tree'].items():
                if p not in collisions:
                    union[p] = t
    else:
        collisions = set()
        colliding_inputs = set()
        union = None
    # A failing allocation (the simulated machine's finite address space) is an injected fault: whether a damaged length field
    # asking read() for gigabytes fails depends on what the process holds already, so it may differ between one long-lived
    # process and a fresh one.  Relaxed narrowly: in a scenario where an allocation failed in some run, the DAMAGED files' own
    # results and outputs are not compared across runs; every other file's still are (and (1), (2) above stay in force).
    alloc_failed = any(rr[1].get('alloc_failures') for rr in runs.values()) or \
        any(r.get('alloc_failures') for r in (alone or {}).values())
    skip_rel = set()
    if alloc_failed:
        res.probe('allocation_failed_under_memory_limit')
        res.fault('allocation_failure')
        skip_rel = {rel for rel in inputs if meta[rel]['faulted']}
    skip_out = set()
    if skip_rel:
        if alone is not None:
            for rel in skip_rel:
                skip_out.update(alone[rel]['tree'])
        stems = {os.path.splitext(rel)[0] for rel in skip_rel} | skip_rel
        for name_, (run_, r_) in ok_runs.items():
            skip_out.update(p_ for p_ in r_['tree'] if any(p_.startswith(st) for st in stems))
    # ---- (3) per-file result equal in A, B, C
    names = sorted(ok_runs)
    base_name = None
    for name in names:
        run, r = ok_runs[name]
        for rel in inputs:
            got = r['results'].get(rel)
            if got is None or rel in skip_rel:
                continue
            want = ref.get(rel) if ref else None
            if want is not None:
                if got != want:
                    diff = sorted(k for k in want if got.get(k) != want.get(k))
                    res.violation('result-differs', f'{name}: result for {rel} is {got}, converting it on its own gives {want}',
                                  mode=run['mode'], fields=','.join(diff), against='alone', channel_subset=bool(cfg['channels']),
                                  output_collides=rel in colliding_inputs, **facts0)
    if len(names) >= 2 and ref is None:
        a = ok_runs[names[0]][1]
        for name in names[1:]:
            b = ok_runs[name][1]
            for rel in inputs:
                if rel not in skip_rel and rel in a['results'] and rel in b['results'] and a['results'][rel] != b['results'][rel]:
                    res.violation('result-differs', f'{names[0]} vs {name}: result for {rel} differs', mode='seq-vs-pool', fields='', against='seq',
                                  channel_subset=bool(cfg['channels']), **facts0)
    # ---- (4) output trees
    for name in names:
        run, r = ok_runs[name]
        tree = {p: t for p, t in r['tree'].items() if p not in collisions and p not in skip_out}
        want = union if union is None else {p: t for p, t in union.items() if p not in skip_out}
        against = 'alone'
        if want is None:
            other = ok_runs[names[0]][1]
            if name == names[0]:
                continue
            want = {p: t for p, t in other['tree'].items() if p not in collisions and p not in skip_out}
            against = names[0]
        if tree != want:
            missing = sorted(set(want) - set(tree))
            extra = sorted(set(tree) - set(want))
            changed = sorted(p for p in tree if p in want and tree[p] != want[p])
            detail = ''
            if changed:
                p = changed[0]
                la, lb = tree[p].split(b'\n'), want[p].split(b'\n')
                k = next((i for i, (x, y) in enumerate(zip(la + [b''], lb + [b''])) if x != y), None)
                detail = f'; first difference in {p} line {k}: {la[k][:100] if k is not None and k < len(la) else None!r} vs {lb[k][:100] if k is not None and k < len(lb) else None!r}'
            res.violation('output-differs', f'{name} (jobs={run.get("jobs")}) output tree differs from {against}: missing {missing[:4]} extra {extra[:4]} changed {changed[:4]}{detail}',
                          mode=run['mode'], missing=bool(missing), extra=bool(extra), changed=bool(changed), against=against,
                          channel_subset=bool(cfg['channels']), **facts0)
    file_shape = sorted((meta[i]['world'], tuple(meta[i]['fault_kinds'])) for i in inputs)
    cfg_shape = (cfg['slice'][0] if cfg['slice'] else None, bool(cfg['channels']), cfg['reduce'])
    res.shape = seeds.digest([conv, file_shape, cfg_shape, shape_runs, scenario['recurse']])
    res.notes['schedules'] = [s for _, s in shape_runs]
    return res


def evidence_accumulate(acc, r):
    acc.setdefault('sched', set()).update(r.get('notes', {}).get('schedules', []))


def evidence_extra(acc):
    return {'distinct_schedules': len(acc.get('sched', ())),
            'distinct_schedules_measure': 'hash of the (worker, operation-kind) sequence of each SimPool run'}


def candidates(scenario):
    import copy
    files = scenario['files']
    runs = scenario['runs']
    if len(files) > 1:
        for k in range(len(files) - 1, -1, -1):
            yield dict(scenario, files=files[:k] + files[k + 1:])
    for k, f in enumerate(files):
        if f.get('faults'):
            for j in range(len(f['faults'])):
                nf = copy.deepcopy(f)
                del nf['faults'][j]
                if not nf['faults']:
                    del nf['faults']
                yield dict(scenario, files=files[:k] + [nf] + files[k + 1:])
    for k in range(len(runs) - 1, -1, -1):
        if len(runs) > 1 and runs[k]['mode'] != 'alone':      # the single-file runs are the reference: never dropped
            yield dict(scenario, runs=runs[:k] + runs[k + 1:])
    for k, run in enumerate(runs):
        if run['mode'] == 'pool':
            if run.get('schedule') != 'fifo':
                yield dict(scenario, runs=runs[:k] + [dict(run, schedule='fifo')] + runs[k + 1:])
            if isinstance(run.get('schedule'), list) and len(run['schedule']) > 4:
                sch = run['schedule']
                yield dict(scenario, runs=runs[:k] + [dict(run, schedule=sch[:len(sch) // 2])] + runs[k + 1:])
                yield dict(scenario, runs=runs[:k] + [dict(run, schedule=[min(c, 1) for c in sch])] + runs[k + 1:])
            for j in (1, 2):
                if run['jobs'] > j:
                    yield dict(scenario, runs=runs[:k] + [dict(run, jobs=j)] + runs[k + 1:])
            if run.get('clock', {}).get('skew') or run.get('clock', {}).get('jumps'):
                yield dict(scenario, runs=runs[:k] + [dict(run, clock={'base': run['clock'].get('base', 0.0)})] + runs[k + 1:])
    cfg = scenario['config']
    for key, val in (('slice', None), ('channels', []), ('reduce', 'first'), ('width', 16), ('fmt', '.3f')):
        if cfg[key] != val:
            yield dict(scenario, config=dict(cfg, **{key: val}))
    if len(cfg['channels']) > 1:
        for j in range(len(cfg['channels'])):
            yield dict(scenario, config=dict(cfg, channels=cfg['channels'][:j] + cfg['channels'][j + 1:]))
    for k, f in enumerate(files):
        g = f['gen']
        if g.get('frames', 0) > 3:
            nf = copy.deepcopy(f)
            nf['gen']['frames'] = 3
            if not nf.get('faults'):
                yield dict(scenario, files=files[:k] + [nf] + files[k + 1:])
        if '/' in f['path']:
            flat = f['path'].split('/', 1)[1]
            if flat not in {x['path'] for x in files}:
                yield dict(scenario, files=files[:k] + [dict(f, path=flat)] + files[k + 1:])
    if scenario['recurse'] and not any('/' in f['path'] for f in files):
        yield dict(scenario, recurse=False)


def main(argv=None):
    return runner.main(sys.modules[__name__], argv)
