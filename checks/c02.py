"""C02 - DLIS index gives random access identical to the sequential read.

Simulation: the caller is the scheduler.  A seeded history of fetches (whole, (offset, length),
by index and by position), sequential scans, validate() calls and legal failing calls is issued
against one ``LogicalRecordIndex`` whose reader keeps a shared cursor and shared, mutated
``visible_record`` / ``logical_record_segment_header`` objects.  Oracle: each fetch equals the
slice of what the sequential read returned in this run; index entries equal the layout map; every
byte read by a fetch lies inside the visible records holding that record (SimFile access log).
"""
import sys

from sim import runner, seeds
from sim.simfile import SimFile, EventClock, contained
from worlds import dlis_phys as D
from checks import c01

PROPERTY = 'C02'
LEVEL = 'exploration'
RUNS = {'quick': 30000, 'thorough': 600000}
RULE = ('scenario = physical model as C01 plus an explicit history of <= 16 operations (fetch / fetch with (offset,length) / '
        'fetch by position / scan / validate / legal failing calls) on one LogicalRecordIndex over a SimFile; non-trivial '
        'when a reach probe fires ((offset,length) crossing 1, 2, >=3 segment boundaries or a visible-record boundary, '
        'len 0 / rest / beyond, same index twice, descending order, fetch after a failing call, fetch after scan); '
        'distinct = distinct shape hash (operation-kind sequence with boundary-crossing class, layout class)')
REAL = ['TotalDepth.RP66V1.core.Index.LogicalRecordIndex (pIndex.py)', 'TotalDepth.RP66V1.core.File.FileRead (pFile.py): '
        'iter_logical_record_positions, get_file_logical_data, iter_logical_records, validate_positions']
STUB = c01.STUB
ASSUMPTIONS = [
    'simulated machine: every process that runs library code has a 4 GiB address space (sim/runner.py MEMORY_LIMIT_BYTES); a request for more fails at once with MemoryError',
    'reference for a fetch is the sequential read of the same run on the same bytes (as the statement says); when that read itself '
    'disagrees with the model it is only counted here (probe seq_disagrees_with_model) and left to C01',
    'fetch length < 0 means "to the end" (documented default -1); offset/length slices follow Python slice semantics for offset >= 0',
    'no stored-byte fault between operations: no listed property says what a reader owes its caller when the file changes under it',
    'index entry payload length is not compared (documented as including pad bytes)',
] + c01.ASSUMPTIONS[1:]
PROBES = ['file_object_not_at_start', 'file_object_with_foreign_fileno', 'two_indexes_interleaved', 'index_on_path', 'restart', 'restart_replaced', 'cross1', 'cross2', 'cross_ge3', 'cross_vr', 'len0', 'len_rest', 'len_beyond', 'off_beyond', 'same_twice', 'descending',
          'after_failing', 'after_scan', 'fetch_pos', 'validate', 'encrypted_fetch', 'multi_vr_fetch']

File = Index = None


def setup():
    global File, Index
    c01.setup()
    from TotalDepth.RP66V1.core import File as _F, Index as _I
    File, Index = _F, _I


# --------------------------------------------------------------------------------------------
def seg_bounds(rec):
    """Cumulative payload offsets at which the record's segments end."""
    out, acc = [], 0
    for s in rec['segs']:
        acc += s['n']
        out.append(acc)
    return out


def gen_ops(rng, model):
    recs = model['records']
    n = len(recs)
    nops = rng.wpick([(3, rng.randrange(1, 4)), (4, rng.randrange(3, 9)), (2, rng.randrange(8, 17))])
    w = {
        'fetch': rng.pick([0, 1, 3]), 'slice': rng.pick([1, 3, 6]), 'pos': rng.pick([0, 1, 2]),
        'scan': rng.pick([0, 0, 1]), 'validate': rng.pick([0, 0, 1]), 'bad': rng.pick([0, 1, 2]),
    }
    if not any(w.values()):
        w['slice'] = 1
    kinds = [(v, k) for k, v in sorted(w.items()) if v]
    multi = [i for i, r in enumerate(recs) if len(r['segs']) > 1] or list(range(n))
    ops = []
    last = None
    for _ in range(nops):
        kind = rng.wpick(kinds)
        if kind in ('scan', 'validate'):
            ops.append([kind])
            continue
        if kind == 'bad':
            which = rng.randrange(3)
            if which == 0:
                ops.append(['fetch', rng.randrange(n), -rng.randrange(1, 5), rng.pick([-1, 0, 5])])
            elif which == 1:
                ops.append(['fetch', n + rng.randrange(0, 3), 0, -1])
            else:
                ops.append(['fetch', -n - 1 - rng.randrange(0, 3), 0, -1])
            continue
        if last is not None and rng.chance(0.25):
            i = last
        elif rng.chance(0.6):
            i = rng.pick(multi)
        else:
            i = rng.randrange(n)
        last = i
        if kind == 'fetch':
            ops.append(['fetch', i, 0, -1])
            continue
        total = sum(s['n'] for s in recs[i]['segs'])
        bounds = seg_bounds(recs[i])
        # offsets / lengths biased to segment boundaries
        def near():
            b = rng.pick(bounds) if bounds else 0
            return max(0, b + rng.pick([-2, -1, 0, 1, 2]))
        off = rng.wpick([(2, 0), (4, near()), (2, rng.randrange(0, total + 1)), (1, total + rng.randrange(0, 4))])
        ln_kind = rng.wpick([(1, 'zero'), (2, 'rest'), (1, 'neg'), (1, 'beyond'), (4, 'to_bound'), (3, 'rand'), (2, 'small')])
        rest = max(0, total - off)
        if ln_kind == 'zero':
            ln = 0
        elif ln_kind == 'rest':
            ln = rest
        elif ln_kind == 'neg':
            ln = -rng.randrange(1, 4)
        elif ln_kind == 'beyond':
            ln = rest + rng.randrange(1, 50)
        elif ln_kind == 'to_bound':
            ln = max(0, near() - off)
        elif ln_kind == 'small':
            ln = rng.randrange(1, 20)
        else:
            ln = rng.randrange(0, rest + 1)
        ops.append(['fetch_pos' if kind == 'pos' else 'fetch', i, off, ln])
    return ops


def generate(seed, tier):
    rng = seeds.Rng(seed)
    model = D.gen_model(rng)
    ops = gen_ops(rng, model)
    sc = {'world': 'dlis_phys', 'model': model, 'ops': ops}
    if rng.chance(0.12):
        sc['start_offset'] = rng.pick(['end', 'end', 1, 20, 80, 84, 200])
    if rng.chance(0.1):
        sc['foreign_fileno'] = True      # a file object whose fileno() is not the stream it delivers (gzip.open() and the like)
    if rng.chance(0.15):
        # the index lives on a real path and is pickled / un-pickled in the history ("restart with only durable state
        # surviving"); the file may have been replaced by another conformant file in between
        sc['storage'] = 'path'
        k = rng.randrange(0, len(ops) + 1)
        if rng.chance(0.5):
            ops.insert(k, ['restart'])
        else:
            alt = D.gen_model(seeds.Rng(rng.getrandbits(32)), max_records=8)
            ops.insert(k, ['restart_replaced', alt])
            # later operations address the new file
            n2 = len(alt['records'])
            for j in range(k + 1, len(ops)):
                if ops[j][0] in ('fetch', 'fetch_pos') and 0 <= ops[j][1] < 10 ** 6:
                    ops[j] = [ops[j][0], ops[j][1] % n2] + ops[j][2:]
    if rng.chance(0.2):
        # a second index on another file is alive at the same time; its operations are interleaved with the history by an
        # explicit schedule: [k, op] = run op on the other index just before operation k
        other = D.gen_model(seeds.Rng(rng.getrandbits(32)), max_records=8)
        n2 = len(other['records'])
        steps = []
        for k in sorted(rng.randrange(0, len(ops) + 1) for _ in range(rng.randrange(1, 7))):
            if rng.chance(0.2):
                steps.append([k, ['scan']])
            else:
                i = rng.randrange(n2)
                total = sum(s_['n'] for s_ in other['records'][i]['segs'])
                steps.append([k, ['fetch', i, rng.pick([0, 0, rng.randrange(0, total + 1)]), rng.pick([-1, -1, rng.randrange(0, total + 2)])]])
        sc['shadow'] = {'model': other, 'steps': steps}
    return sc


def crossing_class(rec, off, ln):
    """How many segment boundaries the payload slice [off, off+ln) strictly crosses."""
    total = sum(s['n'] for s in rec['segs'])
    end = total if ln < 0 else min(total, off + ln)
    if end <= off:
        return 0
    return sum(1 for b in seg_bounds(rec)[:-1] if off < b < end)


def execute(scenario):
    res = runner.Result()
    model = scenario['model']
    by, layout = D.build(model)
    exp = layout['records']
    c01.probes_of(runner.Result(), model, layout)
    clock = EventClock()
    f = SimFile(by, clock, foreign_fileno=bool(scenario.get('foreign_fileno')))
    if scenario.get('start_offset') is not None:
        # the caller has used the file object before: it is not at the start (just written, or its first bytes inspected)
        f.seek(len(by) if scenario['start_offset'] == 'end' else min(scenario['start_offset'], len(by)))
        res.probe('file_object_not_at_start')
    if scenario.get('foreign_fileno'):
        res.probe('file_object_with_foreign_fileno')
    op_shapes = []
    res.op('index')
    on_path = scenario.get('storage') == 'path'
    scratch_dir = path = None
    if on_path:
        import os
        from sim import build as simbuild
        scratch_dir = os.path.join(simbuild.scratch_root(), f'tdsim-{os.getpid()}')
        os.makedirs(scratch_dir, exist_ok=True)
        path = os.path.join(scratch_dir, 'f.dlis')
        with open(path, 'wb') as fh:
            fh.write(by)
        res.probe('index_on_path')
    try:
        index = Index.LogicalRecordIndex(path if on_path else f)
        index._enter()
    except Exception as err:
        res.violation('index-exception', f'{type(err).__name__}: {err}', exc=type(err).__name__, **c01.sul_facts(model['sul']))
        res.events.extend(f.log)
        res.shape = seeds.digest(['index-exception'])
        return res
    # ---- index entries against the layout map
    if len(index) != len(exp):
        res.violation('index-count', f'index has {len(index)} entries, file has {len(exp)} logical records',
                      entries=len(index), records=len(exp))
    for i in range(min(len(index), len(exp))):
        e, x = index[i], exp[i]
        got = (e.position.vr_position, e.position.lrsh_position, e.description.lr_type, e.description.attributes.is_eflr,
               e.description.attributes.is_encrypted)
        want = (x['vr_pos'], x['lrsh_pos'], x['type'], x['eflr'], x['enc'])
        res.ev('entry', i, got)
        if got != want:
            res.violation('index-entry', f'entry {i}: (vr, lrsh, type, eflr, encrypted) = {got}, written {want}',
                          segments=len(x['segs']), n_vrs=x['n_vrs'])
    # ---- reference: the sequential read of this run
    scratch = runner.Result()
    seq = c01.sequential_read(scratch, index.rp66v1_file, layout, 'seq')
    res.events.extend(scratch.events)
    if scratch.violations or seq is None:
        res.probe('seq_disagrees_with_model')
        res.notes['seq_disagrees_with_model'] = [v['cls'] for v in scratch.violations][:3]
    if seq is None or len(seq) != len(exp):
        # no usable reference; C01 reports this
        res.events.extend(f.log)
        res.shape = seeds.digest(['no-reference'])
        return res
    prev_kind = 'scan'
    prev_index = None
    shadow = None
    if scenario.get('shadow'):
        res.probe('two_indexes_interleaved')
        sh_by, sh_layout = D.build(scenario['shadow']['model'])
        try:
            sh_index = Index.LogicalRecordIndex(SimFile(sh_by, clock, name='<sim-b>'))
            sh_index._enter()
            shadow = (sh_index, sh_layout['records'])
        except Exception as err:
            res.violation('index-exception', f'second index: {type(err).__name__}: {err}', exc=type(err).__name__, **c01.sul_facts(scenario['shadow']['model']['sul']))
    for k, op in enumerate(list(scenario['ops']) + [None]):
        if shadow is not None:
            for kk, sop in scenario['shadow']['steps']:
                if kk == k:
                    shadow_step(res, shadow, sop, k)
        if op is None:
            break
        kind = op[0]
        res.op(kind)
        t0 = clock.seq
        if kind in ('restart', 'restart_replaced'):
            import pickle
            res.probe(kind)
            try:
                blob = pickle.dumps(index)          # taken while the index is open, as the repository's own tools do
                index._exit()
                if kind == 'restart_replaced':
                    model = op[1]
                    by, layout = D.build(model)
                    exp = layout['records']
                    with open(path, 'wb') as fh:
                        fh.write(by)
                index = pickle.loads(blob)
                index._enter()
            except Exception as err:
                res.violation('restart-exception', f'op {k} {kind}: {type(err).__name__}: {err}', exc=type(err).__name__, replaced=kind == 'restart_replaced')
                break
            if len(index) != len(exp):
                res.violation('index-count', f'op {k} {kind}: after un-pickling and entering, the index has {len(index)} entries, the file has {len(exp)} logical records',
                              entries=len(index), records=len(exp), after_restart=True)
                break
            bad_entry = False
            for i in range(len(exp)):
                e, x = index[i], exp[i]
                if (e.position.vr_position, e.position.lrsh_position, e.description.lr_type) != (x['vr_pos'], x['lrsh_pos'], x['type']):
                    res.violation('index-entry', f'op {k} {kind}: entry {i} is stale: {(e.position.vr_position, e.position.lrsh_position, e.description.lr_type)}, '
                                  f'the file has {(x["vr_pos"], x["lrsh_pos"], x["type"])}', segments=len(x['segs']), n_vrs=x['n_vrs'], after_restart=True)
                    bad_entry = True
                    break
            if bad_entry:
                break
            s3 = runner.Result()
            seq = c01.sequential_read(s3, index.rp66v1_file, layout, f'seq@{k}')
            res.events.extend(s3.events)
            if seq is None or len(seq) != len(exp):
                break
            op_shapes.append(kind)
            prev_kind, prev_index = 'scan', None
            continue
        if kind == 'scan':
            s2 = runner.Result()
            again = c01.sequential_read(s2, index.rp66v1_file, layout, f'scan@{k}')
            res.events.extend(s2.events)
            if again != seq:
                res.violation('scan-changed', f'op {k}: a later sequential read differs from the first one in this run', op=k)
            op_shapes.append('scan')
            prev_kind = 'scan'
            continue
        if kind == 'validate':
            res.probe('validate')
            try:
                index.validate()
                res.ev('validate', k, 'ok')
            except Exception as err:
                res.violation('validate-exception', f'op {k}: validate() raised {type(err).__name__}: {err} on a conformant file',
                              exc=type(err).__name__)
            op_shapes.append('validate')
            prev_kind = 'validate'
            continue
        _, i, off, ln = op
        legal = off >= 0 and -len(exp) <= i < len(exp)
        try:
            if kind == 'fetch_pos':
                res.probe('fetch_pos')
                fld = index.get_file_logical_data_at_position(index[i].position, off, ln)
            else:
                fld = index.get_file_logical_data(i, off, ln)
            outcome = ('ok', fld.logical_data.bytes, fld.lr_type, fld.lr_is_eflr)
        except Exception as err:
            outcome = ('exc', type(err).__name__, str(err)[:200])
        t1 = clock.seq
        if not legal:
            # legal failing call: documented exception family, nothing else may change
            op_shapes.append('bad')
            res.ev('bad', k, outcome[0], outcome[1] if outcome[0] == 'exc' else len(outcome[1]))
            if outcome[0] == 'ok':
                res.violation('failing-call-accepted', f'op {k}: {op} returned {len(outcome[1])} bytes instead of raising',
                              negative_offset=off < 0)
            elif off < 0 and -len(exp) <= i < len(exp):
                if outcome[1] not in ('ExceptionFileRead',):
                    res.violation('failing-call-exception', f'op {k}: {op} raised {outcome[1]}: {outcome[2]}', exc=outcome[1])
            else:
                if outcome[1] != 'IndexError':
                    res.violation('failing-call-exception', f'op {k}: {op} raised {outcome[1]}: {outcome[2]}', exc=outcome[1])
            prev_kind = 'bad'
            continue
        ii = i % len(exp)
        x = exp[ii]
        rec = model['records'][ii]
        cross = crossing_class(rec, off, ln)
        total = len(seq[ii])
        want = seq[ii][off:] if ln < 0 else seq[ii][off:off + ln]
        whole = (off == 0 and ln < 0)
        # probes
        if not whole:
            if cross == 1:
                res.probe('cross1')
            elif cross == 2:
                res.probe('cross2')
            elif cross >= 3:
                res.probe('cross_ge3')
            if ln == 0:
                res.probe('len0')
            elif ln > 0 and off + ln == total:
                res.probe('len_rest')
            elif ln > 0 and off + ln > total:
                res.probe('len_beyond')
            if off > total:
                res.probe('off_beyond')
            # crosses a visible record boundary?
            if cross:
                acc = 0
                end = total if ln < 0 else min(total, off + ln)
                vrs = set()
                for s, sl in zip(rec['segs'], x['segs']):
                    if acc < end and acc + s['n'] > off:
                        vrs.add(sl['vr_index'])
                    acc += s['n']
                if len(vrs) > 1:
                    res.probe('cross_vr')
        if x['n_vrs'] > 1:
            res.probe('multi_vr_fetch')
        if x['enc']:
            res.probe('encrypted_fetch')
        if prev_index == ii:
            res.probe('same_twice')
        if prev_index is not None and ii < prev_index:
            res.probe('descending')
        if prev_kind == 'bad':
            res.probe('after_failing')
        if prev_kind == 'scan' and k > 0:
            res.probe('after_scan')
        op_shapes.append(('w' if whole else 's') + str(min(cross, 3)))
        res.ev(kind, k, i, off, ln, outcome[0], seeds.digest(outcome[1]) if outcome[0] == 'ok' else outcome[1])
        facts = {'whole': whole, 'crosses_segments': min(cross, 3), 'length_kind': 'neg' if ln < 0 else ('zero' if ln == 0 else 'pos'),
                 'offset_zero': off == 0, 'by_position': kind == 'fetch_pos'}
        if outcome[0] == 'exc':
            res.violation('fetch-exception', f'op {k}: {op} raised {outcome[1]}: {outcome[2]}', exc=outcome[1], **facts)
        else:
            got = outcome[1]
            if got != want:
                res.violation('fetch-mismatch',
                              f'op {k}: {op} returned {len(got)} bytes, the slice of the sequential payload has {len(want)} bytes '
                              f'(payload {total} bytes in segments of {[s["n"] for s in rec["segs"]]}); first difference at {c01.first_diff(got, want)}',
                              too_long=len(got) > len(want) and got[:len(want)] == want, **facts)
            if (outcome[2], outcome[3]) != (x['type'], x['eflr']):
                res.violation('fetch-kind', f'op {k}: {op} returned type {outcome[2]} eflr {outcome[3]}', **facts)
            bad = contained(f.reads_between(t0, t1), x['vr_extents']) if not on_path else []
            if bad:
                res.violation('footprint', f'op {k}: {op} read {bad[:3]} outside the visible records {x["vr_extents"]} of record {ii}',
                              **facts)
        prev_kind = 'fetch'
        prev_index = ii
    try:
        index._exit()
        if shadow is not None:
            shadow[0]._exit()
    except Exception as err:
        res.violation('close-exception', f'{type(err).__name__}: {err}', exc=type(err).__name__)
    res.events.extend(f.log)
    res.shape = seeds.digest([op_shapes, c01.shape_of(model), on_path, shadow is not None])
    if scratch_dir:
        import shutil
        shutil.rmtree(scratch_dir, ignore_errors=True)
    return res


def shadow_step(res, shadow, sop, k):
    """One operation on the second index (another file); it is held to the same standard as the first."""
    sh_index, sh_exp = shadow
    res.op('shadow_' + sop[0])
    try:
        if sop[0] == 'scan':
            got = [fld.logical_data.bytes for fld in sh_index.rp66v1_file.iter_logical_records()]
            want = [x['payload'] for x in sh_exp]
        else:
            _, i, off, ln = sop
            got = sh_index.get_file_logical_data(i, off, ln).logical_data.bytes
            pay = sh_exp[i]['payload']
            want = pay[off:] if ln < 0 else pay[off:off + ln]
    except Exception as err:
        res.violation('fetch-exception', f'before op {k}: second index (alive at the same time), {sop} raised {type(err).__name__}: {err}',
                      exc=type(err).__name__, second_index=True)
        return
    res.ev('shadow', k, sop[0], seeds.digest(got))
    if got != want:
        res.violation('fetch-mismatch', f'before op {k}: second index (alive at the same time), {sop} does not return what was written to its file', second_index=True)


def candidates(scenario):
    ops = scenario['ops']
    if scenario.get('shadow'):
        yield {k: v for k, v in scenario.items() if k != 'shadow'}
        st = scenario['shadow']['steps']
        for j in range(len(st)):
            if len(st) > 1:
                yield dict(scenario, shadow=dict(scenario['shadow'], steps=st[:j] + st[j + 1:]))
        for tag, m, dropped in D.phys_candidates(scenario['shadow']['model']):
            if dropped is None:
                yield dict(scenario, shadow=dict(scenario['shadow'], model=m))
    for k in range(len(ops) - 1, -1, -1):
        yield dict(scenario, ops=ops[:k] + ops[k + 1:])
    n = len(scenario['model']['records'])
    for tag, m, dropped in D.phys_candidates(scenario['model']):
        if dropped is None:
            new_ops = ops
            if tag in ('shrink', 'collapse', 'merge'):
                pass
        else:
            new_ops = []
            for op in ops:
                if op[0] in ('fetch', 'fetch_pos'):
                    i = op[1]
                    if 0 <= i < n:
                        if i == dropped:
                            continue
                        if i > dropped:
                            op = [op[0], i - 1] + op[2:]
                    else:
                        continue
                new_ops.append(op)
        yield dict(scenario, model=m, ops=new_ops)
    for k, op in enumerate(ops):
        if op[0] in ('fetch', 'fetch_pos'):
            for new in ([op[0], op[1], 0, op[3]], [op[0], op[1], op[2], -1], ['fetch'] + op[1:],
                        [op[0], op[1], op[2] // 2, op[3]], [op[0], op[1], op[2], op[3] // 2]):
                if new != op:
                    yield dict(scenario, ops=ops[:k] + [new] + ops[k + 1:])


def main(argv=None):
    return runner.main(sys.modules[__name__], argv)
