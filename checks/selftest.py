"""./check selftest [--quick]: prove the simulator before believing it (DESIGN 2.11).

* model validation - every independent reference reader over the bundled example files and over the
  producers' own output (a disagreement is a harness error, never a VIOLATION);
* determinism - for every check the same run indices are executed twice, in fresh interpreters, with
  different worker counts and different PYTHONHASHSEED; the event-log digests must agree pairwise;
* replay - a violating scenario of a toy mutant of the *model* is minimised, written and replayed.

Exit 0 = all good, 2 = harness error.  Never exits 1.
"""
import glob
import json
import os
import subprocess
import sys
import tempfile
import time

VERIF = os.path.dirname(os.path.dirname(os.path.abspath(__file__)))
CHECKS = ['C01', 'C02', 'C04', 'C05', 'C06', 'C11', 'C12', 'C14', 'C20']


def model_validation():
    from sim import build, seeds
    build.ensure_build()
    from worlds import dlis_phys, lis_phys, bit
    n = 0
    n_chk = 0
    for p in sorted(glob.glob(os.path.join(build.REPO, 'example_data', 'RP66V1', 'data', '*'))):
        with open(p, 'rb') as f:
            by = f.read()
        sul, recs = dlis_phys.ref_read(by, tolerant=True)
        assert sul['ver'] == 'V1.00' and sul['struct'] == 'RECORD', p
        n += len(recs)
    for p in sorted(glob.glob(os.path.join(build.REPO, 'example_data', 'LIS', 'data', '*'))):
        with open(p, 'rb') as f:
            by = f.read()
        tif, recs = lis_phys.ref_read(by)
        assert recs and recs[0]['payload'][0] in (128, 130, 132), (p, recs[0]['payload'][:2])
        n += len(recs)
        # the reference for the value of the checksum trailer is what field data says it is
        if tif == 'none':
            import struct
            pos = 0
            while pos + 4 <= len(by):
                plen, attr = struct.unpack('>HH', by[pos:pos + 4])
                if plen < 4:
                    break
                if attr & (1 << 12):
                    n_chk += 1
                    assert lis_phys.lis_checksum(by[pos:pos + plen - 2]) == int.from_bytes(by[pos + plen - 2:pos + plen], 'big'), \
                        f'{p}: checksum trailer of the physical record at {pos} is not reproduced by the reference'
                pos += plen
    assert n_chk >= 100, f'only {n_chk} checksum trailers in the bundled LIS files: the checksum reference is not validated'
    for p in sorted(glob.glob(os.path.join(build.REPO, 'example_data', 'BIT', 'data', '*'))):
        with open(p, 'rb') as f:
            by = f.read()
        passes = bit.ref_read(by)
        assert passes and all(len(p_['names']) == len(p_['values']) for p_ in passes), p
        n += len(passes)
    # producers vs reference readers
    for i in range(60):
        m = dlis_phys.gen_model(seeds.Rng(seeds.derive('selftest', 'dlis', i)))
        by, lay = dlis_phys.build(m)
        sul, recs = dlis_phys.ref_read(by)
        assert [r['payload'] for r in recs] == [r['payload'] for r in lay['records']]
        m = lis_phys.gen_model(seeds.Rng(seeds.derive('selftest', 'lis', i)))
        by, lay = lis_phys.build(m)
        tif, recs = lis_phys.ref_read(by)
        assert tif == m['tif'] and [r['payload'] for r in recs] == [r['payload'] for r in lay['records']]
        m = bit.gen_model(seeds.Rng(seeds.derive('selftest', 'bit', i)))
        by, lay = bit.build(m)
        assert len(bit.ref_read(by)) == len(m['passes'])
    return n


def digests(check, runs, jobs, hashseed, first=0):
    fd, path = tempfile.mkstemp(suffix='.json')
    os.close(fd)
    env = dict(os.environ, PYTHONHASHSEED=str(hashseed))
    cmd = [os.path.join(VERIF, 'check'), check, '--runs', str(runs), '--first', str(first), '--jobs', str(jobs), '--emit-digests', path,
           '--no-evidence', '--no-minimise']
    p = subprocess.run(cmd, env=env, stdout=subprocess.PIPE, stderr=subprocess.STDOUT, text=True)
    try:
        with open(path) as f:
            d = json.load(f)
    except Exception:
        d = None
    os.unlink(path)
    if d is None or p.returncode == 2:
        raise RuntimeError(f'{check}: digest run failed (exit {p.returncode}):\n{p.stdout[-1500:]}')
    return d


def determinism(quick):
    report = {}
    have = [c for c in CHECKS if os.path.exists(os.path.join(VERIF, 'checks', c.lower() + '.py'))]
    for c in have:
        n = {'C12': 12, 'C11': 12, 'C20': 12}.get(c, 32) if quick else {'C12': 100, 'C11': 100, 'C20': 100}.get(c, 200)
        a = digests(c, n, 16, 0)
        b = digests(c, n, 3, 12345)
        diff = [k for k in a if a[k] != b.get(k)]
        report[c] = {'runs': n, 'differing': diff[:5]}
        if diff or any(str(v).startswith('HARNESS') for v in a.values()):
            raise RuntimeError(f'{c}: event-log digests differ between two executions for run indices {diff[:5]} '
                               f'(or harness errors: {[v for v in a.values() if str(v).startswith("HARNESS")][:2]})')
        if not quick:
            c2 = digests(c, n, 7, 777)
            if c2 != a:
                raise RuntimeError(f'{c}: third execution differs')
        if len(set(a.values())) < max(2, n // 2):
            raise RuntimeError(f'{c}: digests do not vary with the seed ({len(set(a.values()))} distinct of {n})')
    return report


def replay_selftest():
    """Minimise + replay against a toy mutant of the model: the C05 reference cursor with one payload byte altered."""
    from sim import runner, seeds
    from checks import c05
    from worlds import lis_phys
    c05.setup()
    orig = lis_phys.payload_bytes

    def mutant(rec):
        by = orig(rec)
        return by[:-1] + bytes([by[-1] ^ 1]) if rec.get('len', 0) >= 7 and rec.get('key', 0) % 3 == 0 else by
    # the reader sees the producer's true bytes; the model is told a lie for some records
    real_build = lis_phys.build

    def lying_build(model, tif=None, rec_start=0):
        by, lay = real_build(model, tif, rec_start)
        for r, m in zip(lay['records'], model['records']):
            r['payload'] = mutant(m)
        return by, lay
    lis_phys.build = lying_build
    real_ref = lis_phys.ref_read
    lis_phys.ref_read = lambda by: (real_ref(by)[0], [{'payload': None}])
    try:
        found = None
        for i in range(200):
            sc = c05.generate(seeds.derive('selftest-replay', i), 'quick')
            try:
                res = runner.exec_in_child(_exec_lenient, sc)
            except Exception:
                continue
            if res.get('violations'):
                found = (sc, res['violations'][0]['cls'])
                break
        if not found:
            raise RuntimeError('replay self-test: the toy mutant was never detected')
        sc, cls = found

        class Shim:
            PROPERTY = 'SELFTEST'
            execute = staticmethod(_exec_lenient)
            candidates = staticmethod(c05.candidates)
        small, small_res, spent = runner.minimise(Shim, sc, cls, budget=150)
        if small_res is None:
            raise RuntimeError('replay self-test: minimiser lost the violation')
        again = runner.exec_in_child(_exec_lenient, small)
        if again['digest'] != small_res['digest'] or not any(v['cls'] == cls for v in again['violations']):
            raise RuntimeError('replay self-test: replay of the minimised scenario differs')
        return {'class': cls, 'original_size': len(json.dumps(sc)), 'minimised_size': len(json.dumps(small)), 'executions': spent}
    finally:
        lis_phys.build = real_build
        lis_phys.ref_read = real_ref


def stub_fidelity(n_scenarios):
    """SimPool against the real multiprocessing.Pool: same result dict and same output tree (minus CREA) on
    scenarios without violations (DESIGN 2.5)."""
    from sim import seeds, runner
    from checks import c12
    from worlds import batch
    c12.setup()
    import logging
    import warnings
    logging.disable(logging.CRITICAL)
    warnings.simplefilter('ignore')
    done = 0
    i = 0
    while done < n_scenarios and i < n_scenarios * 20:
        sc = c12.generate(seeds.derive('selftest-fidelity', i), 'quick')
        i += 1
        pool_runs = [r for r in sc['runs'] if r['mode'] == 'pool']
        if not pool_runs:
            continue
        def both(sc=sc, run=pool_runs[0]):
            br = batch.BatchRun(sc)
            try:
                a = br.run('sim', run)
                b = br.run('real', dict(run, mode='realpool'))
                al = {rel: br.run(f'alone{k}', {'mode': 'alone'}, alone=rel)['tree'] for k, rel in enumerate(br.inputs)}
                owners = {}
                collide = False
                for rel, t in al.items():
                    for pth in t:
                        collide = collide or pth in owners
                        owners[pth] = rel
                return {'a': [a['status'], sorted(a['results'].items()), sorted((k, seeds.digest(v)) for k, v in a['tree'].items())],
                        'b': [b['status'], sorted(b['results'].items()), sorted((k, seeds.digest(v)) for k, v in b['tree'].items())], 'collide': collide}
            finally:
                br.cleanup()
        out = runner.exec_in_child(lambda _sc: both(), sc, timeout=120)
        if 'harness_error' in out:
            raise RuntimeError('stub fidelity: ' + out['harness_error'][-800:])
        if out['collide']:
            continue       # KF-C12-1: outcome legitimately depends on real scheduling
        if out['a'] != out['b']:
            raise RuntimeError(f'stub fidelity: SimPool and multiprocessing.Pool disagree on scenario {i - 1}: {json.dumps(out)[:1500]}')
        done += 1
    return done


def regression_seeds():
    """replays/keep-<property>-<commit>.json were produced by reverting each fix: commit in a scratch worktree and letting the
    check find and minimise the violation again (tools/make_regressions.sh). On the current tree each must replay clean."""
    import importlib
    from sim import runner
    n = 0
    for path in sorted(glob.glob(os.path.join(VERIF, 'replays', 'keep-*.json'))):
        with open(path) as f:
            doc = json.load(f)
        chk = importlib.import_module('checks.' + doc['property'].lower())
        chk.setup()
        res = runner.exec_in_child(chk.execute, doc['scenario'])
        if 'harness_error' in res:
            raise RuntimeError(f'regression seed {os.path.basename(path)}: {res["harness_error"][-500:]}')
        unknown, _ = runner.classify(chk, res)
        if unknown:
            raise RuntimeError(f'regression seed {os.path.basename(path)}: violation {unknown[0]["cls"]} is back: {unknown[0]["detail"][:300]}')
        n += 1
    return n


def _exec_lenient(sc):
    from checks import c05
    from worlds import lis_phys
    # skip the producer/reference-reader cross check, which the toy mutant breaks on purpose
    import builtins
    res = c05.execute.__wrapped__(sc) if hasattr(c05.execute, '__wrapped__') else _c05_no_assert(sc)
    return res


def _c05_no_assert(sc):
    from checks import c05
    from worlds import lis_phys as L
    real = L.ref_read
    model = sc['model']
    by, layout = L.build(model)
    L.ref_read = lambda b: (model['tif'], [{'payload': r['payload']} for r in layout['records']])
    try:
        return c05.execute(sc)
    finally:
        L.ref_read = real


def main(argv=None):
    argv = argv or []
    quick = '--quick' in argv
    t0 = time.time()
    try:
        n = model_validation()
        print(f'selftest: model validation ok ({n} records of bundled files read by the reference readers)')
        rep = determinism(quick)
        print(f'selftest: determinism ok {json.dumps({k: v["runs"] for k, v in rep.items()})} run indices x 2 executions '
              f'(16 vs 3 worker processes, PYTHONHASHSEED 0 vs 12345, fresh interpreters)')
        r = replay_selftest()
        print(f'selftest: minimise + replay ok {json.dumps(r)}')
        n = regression_seeds()
        print(f'selftest: {n} regression seeds (replays of the repaired defects) replay clean')
        n = stub_fidelity(3 if quick else 40)
        print(f'selftest: stub fidelity ok: SimPool == real multiprocessing.Pool (results and output trees) on {n} scenarios')
    except Exception as err:
        import traceback
        print('HARNESS-ERROR selftest: ' + ''.join(traceback.format_exception_only(type(err), err)).strip(), file=sys.stderr)
        traceback.print_exc()
        return 2
    print(f'selftest: ok in {time.time() - t0:.1f}s')
    return 0
