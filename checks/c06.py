"""C06 - LIS log pass frame sets are exact; any sub-selection is a sub-matrix.

Simulation: the real ``File.FileRead`` over a SimFile, ``FileIndexer.FileIndex``, then a seeded
history of ``LogPass.setFrameSet(file, slice, channels)`` loads over the log passes of the file.
The shared file cursor, the TIF chain state, the run-length index and the frame set replaced on
every load are the state a history can upset; SimFile's access log gives the I/O footprint.
"""
import sys

import numpy as np

from sim import runner, seeds
from sim.simfile import SimFile, EventClock, contained
from worlds import lis_logical as LL, lis_phys as LP

PROPERTY = 'C06'
LEVEL = 'exploration'
RUNS = {'quick': 16000, 'thorough': 400000}
RULE = ('scenario = seeded LIS logical model ([reel][tape] file header, tables, DFSR with 1..8 channels of codes 49 50 56 66 68 70 73 77 79, samples and '
        'bursts, direct or indirect X, up/down/time, seeded frames-per-record pattern with short last record, [trailers], 1..2 logical files, physical '
        'layout as C05 incl. TIF and foreign chunking) and an explicit history of <= 10 setFrameSet loads (slice, channel subset, reused channel list); '
        'non-trivial = a reach probe fires (stepped slice crossing a record boundary with indirect X, slice starting inside a record, slice touching only '
        'the short last record, subset without channel 0, multi-sample channel, reused channel list, two log passes, irregular records); distinct = '
        'distinct shape hash (load-kind sequence, DFSR structure class, record pattern class, physical class)')
REAL = ['TotalDepth.LIS.core.File.FileRead / PhysRec / TifMarker', 'LIS.core.FileIndexer.FileIndex', 'LIS.core.LogPass.LogPass.setFrameSet', 'LIS.core.FrameSet',
        'LIS.core.Type01Plan', 'LIS.core.Rle / common.Rle', 'LIS.core.LogiRec (headers, tables, DFSR)', 'LIS.core.RepCode (Cython cRepCode built from the working tree)']
STUB = ['file object -> SimFile', 'file writer -> independent producers worlds/lis_logical.py + worlds/lis_phys.py']
ASSUMPTIONS = [
    'dipmeter codes 130/234 and alternate data (type 1) are left out',
    'rep code 50 is generated with non-negative exponents only (TotalDepth limits the exponent field; definition could not be cross-checked offline); '
    'no denormal / reserved patterns (C07 territory)',
    'slices are normalised by the harness to 0 <= start < stop <= total, step >= 1 (the statement says sub-matrix, not Python negative indexing)',
    'frame spacing units equal the X axis units, or differ by one of eleven decimal / duodecimal factors that need no table (IN -> .1IN = 10, US -> MS = 0.001, ...); the general unit conversion is C17',
    'values of one channel (samples x bursts) are compared in recorded order',
    'footprint: every read between start and end of a load lies inside the extents (first TIF marker / PR header .. end of last trailer) of the data '
    'records that contain requested frames, plus at most the 12 byte TIF marker + 4 byte header that immediately follows such a record',
]
PROBES = ['slice_beyond_last_frame', 'slice_beyond_refused', 'two_files_interleaved', 'alternate_data_pass', 'stepped_cross_record_indirect', 'slice_starts_inside_record', 'only_short_last_record', 'subset_without_ch0', 'multi_sample', 'reused_chlist',
          'two_log_passes', 'irregular_records', 'indirect_x', 'direct_x', 'tif', 'burst', 'up_log', 'time_log', 'tables', 'load_after_load_other_pass',
          'last_x_checked']

File = FileIndexer = ExceptionTotalDepth = None


def setup():
    global File, FileIndexer, ExceptionTotalDepth
    from TotalDepth.LIS.core import File as _F, FileIndexer as _I
    from TotalDepth import ExceptionTotalDepth as _E
    File, FileIndexer, ExceptionTotalDepth = _F, _I, _E


def gen_ops(rng, model):
    ops = []
    nops = rng.wpick([(2, rng.randrange(1, 3)), (5, rng.randrange(2, 6)), (2, rng.randrange(5, 11))])
    last = None
    reuse = rng.chance(0.3)
    for _ in range(nops):
        plist = LL.passes_of(model)
        fi = last if (last is not None and rng.chance(0.6)) else rng.randrange(len(plist))
        last = fi
        f = plist[fi][2]
        n = len(f['frames'])
        kind = rng.wpick([(3, 'full'), (5, 'slice')])
        if kind == 'full':
            sl = None
        else:
            a = rng.pick([0, 0, 1, n // 2, n - 1, rng.randrange(n)])
            b = rng.pick([n, n, min(n, a + 1), min(n, a + 3), rng.randrange(min(a + 1, n), n + 1)])
            s = rng.pick([1, 1, 2, 3, 4, 7])
            sl = [a, b, s]
        nch = len(f['dfsr']['channels'])
        if rng.chance(0.45):
            ch = None
        else:
            ch = sorted(rng.sample(range(nch), rng.wpick([(3, rng.randrange(1, nch + 1)), (2, rng.randrange(1, min(nch, 4) + 1))])))
        op = ['load', fi, sl, ch, reuse and ch is not None]
        if sl is not None and rng.chance(0.08):
            # the last window of a caller paging in fixed windows: the slice runs past the last frame
            op = ['load', fi, [sl[0], n + rng.pick([1, 2, 5, 8]), sl[2]], ch, op[4], 'beyond']
        ops.append(op)
    return ops


def generate(seed, tier):
    rng = seeds.Rng(seed)
    model = LL.gen_model(rng, max_frames=rng.pick([8, 30, 120]), allow_alt=True, same_file_passes=rng.chance(0.12))
    sc = {'world': 'lis_logical', 'model': model, 'ops': gen_ops(rng, model)}
    if rng.chance(0.2):
        # a second file, reader, index and log passes are alive at the same time: [k, fi] = before operation k all frames of log
        # pass fi of the other file are loaded
        other = LL.gen_model(seeds.Rng(rng.getrandbits(32)), max_frames=8, allow_alt=True)
        npass = len(LL.passes_of(other))
        sc['shadow'] = {'model': other, 'steps': [[k, rng.randrange(npass)] for k in sorted(rng.randrange(0, len(sc['ops']) + 1) for _ in range(rng.randrange(1, 5)))]}
    return sc


def expected_matrix(f, rows, cols):
    d = f['dfsr']
    out = np.empty((len(rows), sum(d['channels'][c]['samples'] * d['channels'][c]['bursts'] for c in cols)), dtype=np.float64)
    for r, k in enumerate(rows):
        p = 0
        for c in cols:
            for w in f['frames'][k][c]:
                out[r, p] = LL.ref_value(d['channels'][c]['rc'], w)
                p += 1
    return out


def record_of_frame(f, k):
    acc = 0
    for ri, n in enumerate(f['per_record']):
        if k < acc + n:
            return ri, k - acc
        acc += n
    raise IndexError(k)


def execute(scenario):
    res = runner.Result()
    model = scenario['model']
    by, layout = LL.build(model)
    tif_ref, recs_ref = LP.ref_read(by)
    assert len(recs_ref) == len(layout['what']) and tif_ref == layout['tif'], 'producer / reference reader disagree'
    clock = EventClock()
    f = SimFile(by, clock, name='sim.lis')
    what = layout['what']
    recs = layout['records']
    # probes on the model
    if layout['tif'] != 'none':
        res.probe('tif')
    plist = LL.passes_of(model)
    pmods = [p[2] for p in plist]
    if len(plist) > 1:
        res.probe('two_log_passes')
    if any(f_.get('alt') for f_ in model['files']):
        res.probe('alternate_data_pass')
    for fm in pmods:
        d = fm['dfsr']
        res.probe('indirect_x' if d['indirect'] else 'direct_x')
        if d['updown'] == 1:
            res.probe('up_log')
        if d['updown'] == 0:
            res.probe('time_log')
        if any(c['samples'] > 1 for c in d['channels']):
            res.probe('multi_sample')
        if any(c['bursts'] > 1 for c in d['channels']):
            res.probe('burst')
        if len(set(fm['per_record'][:-1])) > 1:
            res.probe('irregular_records')
        if fm.get('tables'):
            res.probe('tables')
    res.op('index')
    try:
        rd = File.FileRead(f, 'sim.lis', False)
        idx = FileIndexer.FileIndex(rd)
    except Exception as err:
        res.violation('index-exception', f'{type(err).__name__}: {err}', exc=type(err).__name__, tif=layout['tif'])
        res.shape = seeds.digest(['index-exception'])
        return res
    # ---- index entries: every header, trailer, table, DFSR at its position, in order
    want_entries = []
    for i, w in enumerate(what):
        if w[0] == 'data':
            continue
        typ = recs[i]['payload'][0]
        want_entries.append((recs[i]['pos'], typ, w[2].encode('ascii') if w[0] == 'table' else None))
    got_entries = []
    for e in idx.genAll():
        name = getattr(e, 'name', None) if e.lrType in (32, 34, 39) else None
        got_entries.append((e.tell, e.lrType, name))
    res.ev('entries', [(t, ty) for t, ty, _ in got_entries])
    if got_entries != want_entries:
        k = next((i for i, (a, b) in enumerate(zip(got_entries + [None], want_entries + [None])) if a != b), None)
        res.violation('index-entries', f'index entry {k}: {got_entries[k] if k < len(got_entries) else None}, file has {want_entries[k] if k < len(want_entries) else None} '
                      f'({len(got_entries)} entries vs {len(want_entries)} records)', tif=layout['tif'])
    lps = [lp.logPass for lp in idx.genLogPasses()]
    if len(lps) != len(pmods):
        res.violation('log-pass-count', f'{len(lps)} log passes found, {len(pmods)} written', alternate=any(f_.get('alt') for f_ in model['files']))
        return res
    for fi, (lp, fm) in enumerate(zip(lps, pmods)):
        n = len(fm['frames'])
        if lp.totalFrames != n:
            res.violation('frame-count', f'log pass {fi}: totalFrames {lp.totalFrames}, {n} frames written in records of {fm["per_record"][:10]}',
                          indirect=fm['dfsr']['indirect'])
            continue
        x0 = LL.x_of_frame(fm, 0)
        if lp.xAxisFirstVal != x0:
            res.violation('first-x', f'log pass {fi}: first X {lp.xAxisFirstVal!r}, written {x0!r}', indirect=fm['dfsr']['indirect'])
        xs = [LL.x_of_frame(fm, k) for k in range(n)]
        # 'evenly spaced' is judged relative to the spacing itself (an absolute 1e-9 let X values through whose record heads are
        # only even up to the precision of representation code 68 when the spacing is small: thorough run 5, see DESIGN 9.5)
        even = n > 1 and all(abs((xs[k + 1] - xs[k]) - (xs[1] - xs[0])) <= 1e-9 * abs(xs[1] - xs[0]) for k in range(n - 1))
        regular = len(fm['per_record']) > 1 and len(set(fm['per_record'][:-1])) <= 1
        if even and len(fm['per_record']) > 1:
            res.probe('last_x_checked')
            got = lp.xAxisLastVal
            tol = 4 * np.spacing(max(abs(xs[0]), abs(xs[-1]), 1.0)) * n
            if fm['dfsr'].get('sp_units'):
                # the converted spacing carries the rounding of the conversion factor into every step
                tol = max(tol, 1e-9 * max(1.0, abs(xs[0]), abs(xs[-1]), LL.spacing_in_x_units(fm['dfsr']) * n))
            if got is None or abs(got - xs[-1]) > tol:
                res.violation('last-x', f'log pass {fi}: last X {got!r}, written {xs[-1]!r} (records of {fm["per_record"][:12]})',
                              indirect=fm['dfsr']['indirect'], regular_records=regular)
    # ---- history of loads
    op_shapes = []
    shared_list = {}
    prev_fi = None
    shadow = None
    if scenario.get('shadow'):
        res.probe('two_files_interleaved')
        sh_model = scenario['shadow']['model']
        sh_by, sh_layout = LL.build(sh_model)
        try:
            sh_rd = File.FileRead(SimFile(sh_by, clock, name='other.lis'), 'other.lis', False)
            sh_idx = FileIndexer.FileIndex(sh_rd)
            shadow = (sh_rd, [lp.logPass for lp in sh_idx.genLogPasses()], [p[2] for p in LL.passes_of(sh_model)])
            if len(shadow[1]) != len(shadow[2]):
                res.violation('log-pass-count', f'second file: {len(shadow[1])} log passes found, {len(shadow[2])} written', second_file=True,
                              alternate=any(f_.get('alt') for f_ in sh_model['files']))
                shadow = None
        except Exception as err:
            res.violation('index-exception', f'second file: {type(err).__name__}: {err}', exc=type(err).__name__, tif=sh_layout['tif'], second_file=True)
    for k, op in enumerate(list(scenario['ops']) + [None]):
        if shadow is not None:
            for kk, sfi in scenario['shadow']['steps']:
                if kk == k:
                    shadow_step(res, shadow, sfi, k)
        if op is None:
            break
        _, fi, sl, chans, reuse = op[:5]
        beyond = len(op) > 5 and op[5] == 'beyond'
        if fi >= len(lps):
            continue
        res.op('load')
        lp, fm = lps[fi], pmods[fi]
        d = fm['dfsr']
        n = len(fm['frames'])
        if sl is None:
            rows = list(range(n))
            slobj = None
        else:
            a, b, s = max(0, min(sl[0], n - 1)), max(1, min(sl[1], n)), max(1, sl[2])
            if b <= a:
                b = a + 1
            rows = list(range(a, b, s))
            slobj = slice(a, b, s)
            if beyond:
                # what exists of the requested frames; the slice handed over runs past them
                rows = list(range(a, n, s))
                slobj = slice(a, max(sl[1], n + 1), s)
                res.probe('slice_beyond_last_frame')
        if chans is None:
            cols = list(range(len(d['channels'])))
            arg = None
        else:
            chs = [c for c in chans if c < len(d['channels'])] or [0]
            cols = sorted(set(chs) | (set() if d['indirect'] else {0}))
            if reuse:
                arg = shared_list.setdefault(fi, [])
                arg[:] = list(arg) + [c for c in chs if c not in arg] if arg else list(chs)
                cols = sorted(set(arg) | (set() if d['indirect'] else {0}))
                res.probe('reused_chlist')
            else:
                arg = list(chs)
        # probes
        recs_needed = sorted({record_of_frame(fm, r)[0] for r in rows})
        if d['indirect'] and slobj is not None and slobj.step > 1 and len(recs_needed) > 1:
            res.probe('stepped_cross_record_indirect')
        if record_of_frame(fm, rows[0])[1] > 0:
            res.probe('slice_starts_inside_record')
        if len(fm['per_record']) > 1 and fm['per_record'][-1] < fm['per_record'][0] and recs_needed == [len(fm['per_record']) - 1]:
            res.probe('only_short_last_record')
        if chans is not None and 0 not in chans:
            res.probe('subset_without_ch0')
        if prev_fi is not None and prev_fi != fi:
            res.probe('load_after_load_other_pass')
        prev_fi = fi
        facts = {'indirect': d['indirect'], 'sliced': slobj is not None, 'step_gt1': bool(slobj is not None and slobj.step > 1), 'subset': chans is not None,
                 'tif': layout['tif'], 'records_touched': min(len(recs_needed), 3), 'starts_inside_record': record_of_frame(fm, rows[0])[1] > 0}
        t0 = clock.seq
        try:
            lp.setFrameSet(rd, slobj, arg)
            exc = None
        except Exception as err:
            exc = err
        t1 = clock.seq
        op_shapes.append(('S' if slobj is not None else 'F') + ('c' if chans is not None else 'a') + str(min(len(recs_needed), 3)))
        if exc is not None and beyond and isinstance(exc, (IndexError, ValueError, LookupError) + ((ExceptionTotalDepth,) if ExceptionTotalDepth else ())):
            # refusing frames that do not exist is one of the two admissible answers (the other: exactly the rows that do exist)
            res.ev('load', k, 'refused:' + type(exc).__name__)
            res.probe('slice_beyond_refused')
            continue
        if exc is not None:
            res.ev('load', k, 'exc:' + type(exc).__name__)
            res.violation('load-exception', f'op {k} {op}: {type(exc).__name__}: {exc}', exc=type(exc).__name__, **facts)
            continue
        fs = lp.frameSet
        got = fs.frames
        exp = expected_matrix(fm, rows, cols)
        res.ev('load', k, fi, list(got.shape), seeds.digest(np.ascontiguousarray(got).tobytes()))
        if got.shape != exp.shape:
            res.violation('frames-shape', f'op {k} {op}: frame set shape {got.shape}, expected {exp.shape} (rows {rows[:6]}.., channels {cols})', **facts)
        elif np.ascontiguousarray(got).tobytes() != exp.tobytes():
            bad = np.argwhere(~((got == exp) | (np.isnan(got) & np.isnan(exp))))
            r, c = (int(bad[0][0]), int(bad[0][1])) if len(bad) else (-1, -1)
            res.violation('frames-values', f'op {k} {op}: frame set row {r} (frame {rows[r]}) column {c}: got {got[r, c]!r}, recorded {exp[r, c]!r}; '
                          f'records of {fm["per_record"][:10]}', **facts)
        if d['indirect']:
            sp = abs(d['spacing'])
            for r, kf in enumerate(rows):
                want = LL.x_of_frame(fm, kf)
                try:
                    gx = fs.xAxisValue(r)
                except Exception as err:
                    res.violation('x-axis-exception', f'op {k}: xAxisValue({r}) raised {type(err).__name__}: {err}', **facts)
                    break
                tol = 4 * np.spacing(max(abs(want), 1.0)) * (len(rows) + 2)
                if d.get('sp_units'):
                    tol = max(tol, 1e-9 * max(1.0, abs(want), LL.spacing_in_x_units(d) * n))
                if abs(gx - want) > tol:
                    ri, off = record_of_frame(fm, kf)
                    first_in_rec = (r == 0) or record_of_frame(fm, rows[r - 1])[0] != ri
                    facts = dict(facts, first_wanted_in_later_record_at_offset=bool(first_in_rec and r > 0 and off > 0))
                    res.violation('x-axis-value', f'op {k} {op}: X of loaded frame {r} (frame {kf}, record {ri} offset {off}) is {gx!r}, implied X is {want!r} '
                                  f'(spacing {d["spacing"]}, updown {d["updown"]}, records of {fm["per_record"][:10]})', offset_in_record=min(off, 2), **facts)
                    break
        # footprint
        rec_index = layout['passes'][fi]['records']
        allowed = []
        for ri in recs_needed:
            rl = recs[rec_index[ri]]
            allowed.append((rl['pos'], rl['end'] + (16 if layout['tif'] != 'none' else 4)))
        bad = contained(f.reads_between(t0, t1), allowed)
        if bad:
            res.violation('footprint', f'op {k} {op}: read {bad[:3]} outside the data records {[(recs[rec_index[ri]]["pos"], recs[rec_index[ri]]["end"]) for ri in recs_needed][:6]} '
                          f'that hold the requested frames', **facts)
    res.events.append(('io', len(f.log), seeds.digest(f.log)))
    dshape = [(len(fm['dfsr']['channels']), fm['dfsr']['indirect'], fm['dfsr']['updown'], min(len(fm['per_record']), 3),
               any(c['samples'] * c['bursts'] > 1 for c in fm['dfsr']['channels'])) for fm in pmods]
    res.shape = seeds.digest([op_shapes, dshape, layout['tif'], model['phys']['chunk_seed'] is not None, model['pre'], model['post']])
    return res


def shadow_step(res, shadow, sfi, k):
    """All frames of one log pass of the second file (alive at the same time), held to what was written there."""
    sh_rd, sh_lps, sh_pm = shadow
    res.op('shadow_load')
    lp, fm = sh_lps[sfi], sh_pm[sfi]
    try:
        lp.setFrameSet(sh_rd, None, None)
        got = lp.frameSet.frames
    except Exception as err:
        res.violation('load-exception', f'before op {k}: second file, log pass {sfi}: {type(err).__name__}: {err}', exc=type(err).__name__, second_file=True,
                      indirect=fm['dfsr']['indirect'])
        return
    exp = expected_matrix(fm, list(range(len(fm['frames']))), list(range(len(fm['dfsr']['channels']))))
    res.ev('shadow', k, sfi, list(got.shape))
    if got.shape != exp.shape or np.ascontiguousarray(got).tobytes() != exp.tobytes():
        res.violation('frames-values' if got.shape == exp.shape else 'frames-shape',
                      f'before op {k}: second file, log pass {sfi}: loaded frames {got.shape} differ from what was written to that file {exp.shape}',
                      second_file=True, indirect=fm['dfsr']['indirect'])


def candidates(scenario):
    import copy
    ops = scenario['ops']
    if scenario.get('shadow'):
        yield {k: v for k, v in scenario.items() if k != 'shadow'}
        st = scenario['shadow']['steps']
        for j in range(len(st)):
            if len(st) > 1:
                yield dict(scenario, shadow=dict(scenario['shadow'], steps=st[:j] + st[j + 1:]))
    model = scenario['model']
    for k in range(len(ops) - 1, -1, -1):
        yield dict(scenario, ops=ops[:k] + ops[k + 1:])
    ph = model['phys']
    for key, val in (('tif', 'none'), ('chunk_seed', None), ('rec', False), ('file', None), ('chk', False), ('prlen', 8192)):
        if ph[key] != val:
            m = copy.deepcopy(model)
            m['phys'][key] = val
            yield dict(scenario, model=m)
    if model['pre']:
        m = copy.deepcopy(model)
        m['pre'] = []
        yield dict(scenario, model=m)
    if model['post']:
        m = copy.deepcopy(model)
        m['post'] = False
        yield dict(scenario, model=m)
    for fidx, f_ in enumerate(model['files']):
        if f_.get('alt'):
            m = copy.deepcopy(model)
            old_list = LL.passes_of(model)
            del m['files'][fidx]['alt']
            keep = [k for k, (a, w, _) in enumerate(old_list) if not (a == fidx and w == 'alt')]
            remap = {k: j for j, k in enumerate(keep)}
            yield dict(scenario, model=m, ops=[[op[0], remap[op[1]]] + op[2:] for op in ops if op[1] in remap])
    if len(model['files']) > 1:
        for dly in range(len(model['files']) - 1, -1, -1):
            m = copy.deepcopy(model)
            old_list = LL.passes_of(model)
            del m['files'][dly]
            keep = [k for k, (a, w, _) in enumerate(old_list) if a != dly]
            remap = {k: j for j, k in enumerate(keep)}
            yield dict(scenario, model=m, ops=[[op[0], remap[op[1]]] + op[2:] for op in ops if op[1] in remap])
    main_pass = {a: k for k, (a, w, _) in enumerate(LL.passes_of(model)) if w == 'main'}
    for fi, fm in enumerate(model['files']):
        pk = main_pass[fi]
        if fm['tables']:
            m = copy.deepcopy(model)
            m['files'][fi]['tables'] = []
            yield dict(scenario, model=m)
        # fewer frames (drop trailing records / frames)
        n = len(fm['frames'])
        for keep in sorted({1, n // 2, n - 1}):
            if 1 <= keep < n:
                m = copy.deepcopy(model)
                f2 = m['files'][fi]
                f2['frames'] = f2['frames'][:keep]
                per, left = [], keep
                for c in f2['per_record']:
                    if left <= 0:
                        break
                    per.append(min(c, left))
                    left -= min(c, left)
                f2['per_record'] = per
                f2['x_words'] = f2['x_words'][:len(per)]
                yield dict(scenario, model=m)
        # drop the last channel
        nch = len(fm['dfsr']['channels'])
        if nch > 1:
            for dch in range(nch - 1, 0, -1):
                m = copy.deepcopy(model)
                f2 = m['files'][fi]
                del f2['dfsr']['channels'][dch]
                for fr in f2['frames']:
                    del fr[dch]
                new_ops = []
                for op in ops:
                    if op[1] == pk and op[3] is not None:
                        ch = [c - 1 if c > dch else c for c in op[3] if c != dch]
                        op = op[:3] + [ch or [0], op[4]]
                    new_ops.append(op)
                yield dict(scenario, model=m, ops=new_ops)
        # single sample / burst
        for ci, c in enumerate(fm['dfsr']['channels']):
            if c['samples'] * c['bursts'] > 1:
                m = copy.deepcopy(model)
                f2 = m['files'][fi]
                f2['dfsr']['channels'][ci]['samples'] = 1
                f2['dfsr']['channels'][ci]['bursts'] = 1
                for fr in f2['frames']:
                    fr[ci] = fr[ci][:1]
                yield dict(scenario, model=m)
    for k, op in enumerate(ops):
        if op[3] is not None:
            yield dict(scenario, ops=ops[:k] + [op[:3] + [None, False]] + ops[k + 1:])
        if op[2] is not None:
            yield dict(scenario, ops=ops[:k] + [op[:2] + [None] + op[3:]] + ops[k + 1:])
            if op[2][2] > 1:
                yield dict(scenario, ops=ops[:k] + [op[:2] + [[op[2][0], op[2][1], 1]] + op[3:]] + ops[k + 1:])


def main(argv=None):
    return runner.main(sys.modules[__name__], argv)
