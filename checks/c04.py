"""C04 - DLIS frame arrays hold exactly the recorded values; sub-selection commutes.

Simulation: one ``LogicalIndex`` over a SimFile, then a seeded history of ``populate_frame_array``
calls (full, slice, sample, channel subsets, legal failing calls) over the frame arrays of all
logical files, mixed with raw record fetches on the same shared cursor.  Reused numpy storage,
zero-length arrays of unselected channels and the file cursor are the state a history can upset.
"""
import json
import sys

import numpy as np

from sim import runner, seeds
from sim.simfile import SimFile, EventClock
from worlds import dlis_logical as DL, dlis_phys as P

PROPERTY = 'C04'
LEVEL = 'exploration'
RUNS = {'quick': 16000, 'thorough': 400000}
RULE = ('scenario = seeded logical model (1..3 logical files, 1..3 interleaved frame types, channels of codes FSINGL ISINGL FDOUBL SSHORT SNORM '
        'SLONG USHORT UNORM ULONG with dimensions [1], [n], [m,n], empty IFLRs, non-consecutive frame numbers, seeded physical layout) and an '
        'explicit history of <= 12 populate / fetch operations on one LogicalIndex over SimFile; non-trivial = a reach probe fires (partial '
        'after full / full after partial with equal frame count, sample N < n, step > 1, subset excluding the last / a middle channel, 2-D '
        'channel, interleaved frame types, populate after a failed populate, fetch between populates); distinct = distinct shape hash '
        '(operation-kind sequence with selection class, frame-type/channel structure, layout class)')
REAL = ['TotalDepth.RP66V1.core.LogicalFile.LogicalIndex / LogicalFile.populate_frame_array', 'RP66V1.core.LogPass (frame arrays, read / read_partial)',
        'common.LogPass (FrameChannel array reuse)', 'common.Slice', 'RP66V1.core.LogicalRecord.EFLR / IFLR', 'RP66V1.core.XAxis', 'RP66V1.core.Index / File (shared cursor)']
STUB = ['file object -> SimFile', 'file writer -> independent producers worlds/dlis_logical.py + worlds/dlis_phys.py']
ASSUMPTIONS = [
    'simulated machine: every process that runs library code has a 4 GiB address space (sim/runner.py MEMORY_LIMIT_BYTES); a request for more fails at once with MemoryError',
    'VSINGL is left out of the producer (its bit layout could not be cross-checked offline); NaN / denormal / reserved patterns are not generated (C07 territory)',
    'elements of a multi-dimensional channel are compared in recorded (flat) order; which subscript varies fastest is not asserted',
    'for Sample(N) the selected indices are taken from the selector itself after checking count = min(N, n), strictly increasing, first = 0 (which indices a sample picks is C15)',
    'a slice selecting no frame is a legal failing call: it may raise a TotalDepth exception or return 0, and must not change later results',
    'EFLR sub-language: every object carries all template attributes (value, count+value or absent); no invariant attributes, no redundant/replacement sets',
]
PROBES = ['channels_object_reused', 'negative_step', 'partial_after_full_same_count', 'full_after_partial_same_count', 'sample_lt_n', 'step_gt1', 'subset_excl_last', 'subset_excl_middle', 'dim2',
          'interleaved_types', 'after_failed_populate', 'fetch_between', 'subset_unknown_name', 'empty_iflr', 'multi_lf', 'frame_number_gap', 'record_spans_vrs', 'first_channel_is_array', 'first_channel_gt_260_bytes', 'two_indexes_interleaved', 'selector_object_reused', 'selector_reused_other_length', 'file_object_with_foreign_fileno', 'file_object_not_at_start']

LogicalFile = Slice = ExceptionTotalDepth = None


def setup():
    global LogicalFile, Slice, ExceptionTotalDepth
    from TotalDepth.RP66V1.core import LogicalFile as _L
    from TotalDepth.common import Slice as _S
    from TotalDepth import ExceptionTotalDepth as _E
    LogicalFile, Slice, ExceptionTotalDepth = _L, _S, _E


def gen_ops(rng, model):
    targets = [(li, fi) for li, lf in enumerate(model['lfs']) for fi, _ in enumerate(lf['frames'])]
    nops = rng.wpick([(2, rng.randrange(1, 3)), (5, rng.randrange(2, 7)), (2, rng.randrange(6, 13))])
    ops = []
    last = None
    nrec_guess = sum(5 + len(lf['order']) for lf in model['lfs'])
    for _ in range(nops):
        if rng.chance(0.1):
            ops.append(['fetch', rng.randrange(nrec_guess), rng.pick([0, 0, 3]), rng.pick([-1, -1, 5])])
            continue
        li, fi = last if (last is not None and rng.chance(0.6)) else rng.pick(targets)
        last = (li, fi)
        fr = model['lfs'][li]['frames'][fi]
        n = len(fr['rows'])
        kind = rng.wpick([(3, 'full'), (4, 'slice'), (2, 'sample'), (1, 'empty')])
        if kind == 'full':
            sl = rng.pick([None, ['slice', None, None, None]])
        elif kind == 'slice':
            a = rng.pick([None, 0, 1, 2, n // 2, n - 1, -1, -3])
            b = rng.pick([None, None, n, n - 1, n // 2 + 1, 3, -1, n + 5])
            s = rng.pick([None, 1, 2, 3, 4, 7])
            sl = ['slice', a, b, s]
            if rng.chance(0.2):
                # descending slices are python slice semantics too
                sl = ['slice', rng.pick([None, n - 1, n // 2, -1, n + 3]), rng.pick([None, 0, 1, n // 3, -n - 1]), -rng.pick([1, 1, 2, 3, 5])]
        elif kind == 'sample':
            sl = ['sample', rng.pick([1, 2, 3, 5, 8, n, n + 3, max(1, n - 1)])]
        else:
            sl = ['slice', rng.pick([n, n + 2, 3]), rng.pick([3, n, 0]), None]
        names = [model['lfs'][li]['channels'][c]['name'] for c in fr['channels']]
        if rng.chance(0.45):
            ch = None
        else:
            k = rng.randrange(0, len(names) + 1)
            ch = sorted(rng.sample(names, k))
            if rng.chance(0.2):
                ch.append('NOPE')
        ops.append(['populate', li, fi, sl, ch])
    return ops


def generate(seed, tier):
    rng = seeds.Rng(seed)
    model = DL.gen_model(rng, max_frames=rng.pick([6, 20, 60]), waves=rng.chance(0.3))
    # 'reuse_channels': the caller keeps ONE set object per frame array and edits it in place between calls
    sc = {'world': 'dlis_logical', 'model': model, 'ops': gen_ops(rng, model), 'reuse_channels': rng.chance(0.35)}
    if rng.chance(0.12):
        sc['start_offset'] = rng.pick(['end', 'end', 1, 20, 80, 84, 200])
    if rng.chance(0.1):
        sc['foreign_fileno'] = True      # a file object whose fileno() is not the stream it delivers (gzip.open() and the like)
    if rng.chance(0.35):
        # the caller builds ONE selector object per selection and hands it to every call that uses that selection (as the
        # command line tools do for every frame array of every logical file); later calls often repeat an earlier selection
        sc['reuse_selector'] = True
        pops = [op for op in sc['ops'] if op[0] == 'populate']
        for op in pops[1:]:
            if rng.chance(0.5):
                op[3] = rng.pick(pops)[3]
    if rng.chance(0.2):
        # a second logical index on another file is alive at the same time; [k, li, fi, slice] = populate that frame array of the
        # other file just before operation k of the history
        other = DL.gen_model(seeds.Rng(rng.getrandbits(32)), max_frames=6, max_lfs=2)
        targets = [(li, fi) for li, lf in enumerate(other['lfs']) for fi, _ in enumerate(lf['frames'])]
        steps = []
        for k in sorted(rng.randrange(0, len(sc['ops']) + 1) for _ in range(rng.randrange(1, 5))):
            li, fi = rng.pick(targets)
            steps.append([k, li, fi, rng.pick([None, None, ['slice', None, None, 2], ['slice', 1, None, None]])])
        sc['shadow'] = {'model': other, 'steps': steps}
    return sc


def select(sl, n):
    """Reference selection for a slice spec: list of indices (None for 'sample': taken from the selector, checked)."""
    if sl is None:
        return list(range(n))
    if sl[0] == 'slice':
        return list(range(*slice(sl[1], sl[2], sl[3]).indices(n)))
    return None


def make_slice(sl):
    if sl is None:
        return None
    if sl[0] == 'sample':
        return Slice.Sample(sl[1])
    return Slice.Slice(sl[1], sl[2], sl[3])


def _eq_bits(a, b):
    return a.dtype == b.dtype and a.shape == b.shape and a.tobytes() == b.tobytes()


def expected_array(chm, rows, c, indices):
    dt = DL.CODE_DTYPE[chm['rep']]
    out = np.empty((len(indices), *chm['dims']), dtype=dt)
    for r, idx in enumerate(indices):
        vals = [DL.ref_value(chm['rep'], b) for b in rows[idx]['bits'][c]]
        out[r] = np.array(vals, dtype=dt).reshape(chm['dims'])
    return out


def execute(scenario):
    res = runner.Result()
    model = scenario['model']
    by, layout = DL.build(model)
    sul, recs_ref = P.ref_read(by)
    assert len(recs_ref) == len(layout['records']), 'producer / reference reader disagree'
    clock = EventClock()
    f = SimFile(by, clock, foreign_fileno=bool(scenario.get('foreign_fileno')))
    if scenario.get('start_offset') is not None:
        # the caller has used the file object before: it is not at the start (just written, or its first bytes inspected)
        f.seek(len(by) if scenario['start_offset'] == 'end' else min(scenario['start_offset'], len(by)))
        res.probe('file_object_not_at_start')
    if scenario.get('foreign_fileno'):
        res.probe('file_object_with_foreign_fileno')
    if len(model['lfs']) > 1:
        res.probe('multi_lf')
    if any(k < 0 for lf in model['lfs'] for k in lf['order']):
        res.probe('empty_iflr')
    if any(len(lf['frames']) > 1 for lf in model['lfs']):
        res.probe('interleaved_types')
    if any(r['n_vrs'] > 1 for r in layout['records']):
        res.probe('record_spans_vrs')
    li_obj = LogicalFile.LogicalIndex(f)
    res.op('index')
    try:
        li_obj.__enter__()
    except Exception as err:
        res.violation('index-exception', f'{type(err).__name__}: {err}', exc=type(err).__name__)
        res.shape = seeds.digest(['index-exception'])
        return res
    # ---- index content
    if len(li_obj.logical_files) != len(model['lfs']):
        res.violation('logical-file-count', f'{len(li_obj.logical_files)} logical files found, {len(model["lfs"])} written')
        return res
    fas = {}
    for li, (lf, ref) in enumerate(zip(li_obj.logical_files, layout['lfs'])):
        if lf.log_pass is None or len(lf.log_pass.frame_arrays) != len(ref['frames']):
            res.violation('log-pass-missing', f'logical file {li}: log pass has {None if lf.log_pass is None else len(lf.log_pass.frame_arrays)} '
                          f'frame arrays, {len(ref["frames"])} frame types written')
            return res
        for fi, (fa, fr) in enumerate(zip(lf.log_pass.frame_arrays, ref['frames'])):
            fas[(li, fi)] = (lf, fa, fr)
            xaxis = lf.iflr_position_map.get(fa.ident)
            n_idx = 0 if xaxis is None else len(xaxis)
            res.ev('frames', li, fi, n_idx)
            if n_idx != len(fr['rows']):
                res.violation('frame-count', f'lf {li} frame type {fi}: index holds {n_idx} frames, {len(fr["rows"])} non-empty data records written',
                              indexed=n_idx, written=len(fr['rows']))
                continue
            nums = [r['fno'] for r in fr['rows']]
            if any(b - a != 1 for a, b in zip(nums, nums[1:])):
                res.probe('frame_number_gap')
            ch0 = fr['channels'][0]
            ch0_scalar = len(row_bits0 := fr['rows'][0]['bits'][0]) == 1 if fr['rows'] else True
            if not ch0_scalar:
                res.probe('first_channel_is_array')
                if len(row_bits0) * DL.CODE_DTYPE[ch0['rep']]().itemsize > 260:
                    res.probe('first_channel_gt_260_bytes')
            for k, row in enumerate(fr['rows']):
                ent = xaxis[k]
                xv = DL.ref_value(ch0['rep'], row['bits'][0][0])
                rec = layout['records'][fr['records'][k]]
                if ent.frame_number != row['fno']:
                    res.violation('index-frame-number', f'lf {li} ft {fi} frame {k}: index frame number {ent.frame_number}, recorded {row["fno"]}')
                    break
                if ch0_scalar and float(ent.x_axis) != float(xv):
                    res.violation('index-x', f'lf {li} ft {fi} frame {k}: index X {ent.x_axis!r}, first channel value {xv!r}', rep=ch0['rep'])
                    break
                pos = ent.logical_record_position
                if (pos.vr_position, pos.lrsh_position) != (rec['vr_pos'], rec['lrsh_pos']):
                    res.violation('index-position', f'lf {li} ft {fi} frame {k}: index position {(pos.vr_position, pos.lrsh_position)}, '
                                  f'record is at {(rec["vr_pos"], rec["lrsh_pos"])}')
                    break
    # ---- history
    op_shapes = []
    hist = {}          # (li, fi) -> list of ('full'|'partial', count)
    shared_sets = {}
    shared_selectors = {}
    prev_failed = False
    prev_kind = None
    shadow = None
    if scenario.get('shadow'):
        res.probe('two_indexes_interleaved')
        sh_by, sh_layout = DL.build(scenario['shadow']['model'])
        try:
            sh_obj = LogicalFile.LogicalIndex(SimFile(sh_by, clock, name='<sim-b>'))
            sh_obj.__enter__()
            shadow = (sh_obj, sh_layout)
        except Exception as err:
            res.violation('index-exception', f'second index: {type(err).__name__}: {err}', exc=type(err).__name__, second_index=True)
    for k, op in enumerate(list(scenario['ops']) + [None]):
        if shadow is not None:
            for st in scenario['shadow']['steps']:
                if st[0] == k:
                    shadow_step(res, shadow, st, k)
        if op is None:
            break
        if op[0] == 'fetch':
            res.op('fetch')
            idx = getattr(li_obj, '_logical_record_index', None)
            if idx is None or len(idx) == 0:
                continue
            i = op[1] % len(idx)
            try:
                fld = idx.get_file_logical_data(i, op[2], op[3])
                pay = layout['records'][i]['payload']
                want = pay[op[2]:] if op[3] < 0 else pay[op[2]:op[2] + op[3]]
                res.ev('fetch', k, i, seeds.digest(fld.logical_data.bytes))
                if fld.logical_data.bytes != want:
                    res.violation('fetch-mismatch', f'op {k}: raw fetch of record {i} [{op[2]}:{op[3]}] returned {len(fld.logical_data.bytes)} bytes, expected {len(want)}')
            except Exception as err:
                res.violation('fetch-exception', f'op {k}: {type(err).__name__}: {err}', exc=type(err).__name__)
            op_shapes.append('f')
            prev_kind = 'fetch'
            continue
        _, li, fi, sl, chans = op
        if (li, fi) not in fas:
            continue
        res.op('populate')
        lf, fa, fr = fas[(li, fi)]
        n = len(fr['rows'])
        names = [c['name'] for c in fr['channels']]
        indices = select(sl, n)
        if scenario.get('reuse_selector') and sl is not None:
            key_ = json.dumps(sl)
            if key_ in shared_selectors:
                res.probe('selector_object_reused')
                if shared_selectors[key_][1] != n:
                    res.probe('selector_reused_other_length')
            fs = shared_selectors.setdefault(key_, (make_slice(sl), n))[0]
            shared_selectors[key_] = (fs, n)
        else:
            fs = make_slice(sl)
        if indices is None:
            indices = fs.indices(n)
            ok = (len(indices) == min(sl[1], n) and all(b > a for a, b in zip(indices, indices[1:])) and (not indices or indices[0] == 0)
                  and all(0 <= x < n for x in indices))
            if not ok:
                res.violation('sample-indices', f'op {k}: Sample({sl[1]}) of {n} frames selects {indices[:12]}', n=n, N=sl[1])
                continue
            if sl[1] < n:
                res.probe('sample_lt_n')
        want_sel = [c == 0 or (chans is None) or (nm in chans) for c, nm in enumerate(names)]
        facts = {'slice_kind': 'none' if sl is None else sl[0], 'channels': 'all' if chans is None else ('none' if not chans else 'subset'),
                 'after_failed': prev_failed, 'dims_max': max(len(c['dims']) for c in fr['channels'])}
        if chans is not None and scenario.get('reuse_channels'):
            arg = shared_sets.setdefault((li, fi), set())
            arg.clear()
            arg.update(chans)
            res.probe('channels_object_reused')
        else:
            arg = set(chans) if chans is not None else None
        try:
            ret = lf.populate_frame_array(fa, fs, arg)
            exc = None
        except Exception as err:
            ret, exc = None, err
        res.ev('populate', k, li, fi, sl, chans, ret if exc is None else 'exc:' + type(exc).__name__)
        sel_cls = ('e' if not indices else ('F' if len(indices) == n else 'p')) + ('a' if chans is None else 's')
        op_shapes.append(sel_cls + (sl[0][:2] if sl else 'no'))
        if not indices:
            # legal failing call
            if exc is not None and not isinstance(exc, ExceptionTotalDepth):
                res.violation('failing-call-exception', f'op {k}: empty selection raised {type(exc).__name__}: {exc}', exc=type(exc).__name__, **facts)
            if exc is None and ret != 0:
                res.violation('failing-call-count', f'op {k}: empty selection returned {ret}', **facts)
            prev_failed = True
            prev_kind = 'populate'
            continue
        if exc is not None:
            res.violation('populate-exception', f'op {k} {op[:4]} chans={chans}: {type(exc).__name__}: {exc}', exc=type(exc).__name__, **facts)
            prev_failed = True
            continue
        # probes
        h = hist.setdefault((li, fi), [])
        full_sel = all(want_sel)
        if h:
            if not full_sel and h[-1] == ('full', len(indices)):
                res.probe('partial_after_full_same_count')
            if full_sel and h[-1][0] == 'partial' and h[-1][1] == len(indices):
                res.probe('full_after_partial_same_count')
        h.append(('full' if full_sel else 'partial', len(indices)))
        if sl and sl[0] == 'slice' and (sl[3] or 1) > 1 and len(indices) > 1:
            res.probe('step_gt1')
        if sl and sl[0] == 'slice' and (sl[3] or 1) < 0:
            res.probe('negative_step')
        if chans is not None and len(names) > 1 and not want_sel[-1]:
            res.probe('subset_excl_last')
        if chans is not None and len(names) > 2 and not all(want_sel[1:-1]):
            res.probe('subset_excl_middle')
        if chans is not None and 'NOPE' in chans:
            res.probe('subset_unknown_name')
        if any(len(c['dims']) >= 2 for c in fr['channels']):
            res.probe('dim2')
        if prev_failed:
            res.probe('after_failed_populate')
        if prev_kind == 'fetch':
            res.probe('fetch_between')
        prev_failed = False
        prev_kind = 'populate'
        if ret != len(indices):
            res.violation('populate-count', f'op {k}: returned {ret}, selection has {len(indices)} frames', **facts)
        for c, (ch, chm) in enumerate(zip(fa.channels, fr['channels'])):
            if not want_sel[c]:
                if len(ch.array) != 0:
                    res.violation('unselected-not-empty', f'op {k}: unselected channel {chm["name"]} has {len(ch.array)} frames', **facts)
                continue
            exp = expected_array(chm, fr['rows'], c, indices)
            got = ch.array
            if got.dtype != exp.dtype:
                res.violation('channel-dtype', f'op {k}: channel {chm["name"]} dtype {got.dtype}, rep code {chm["rep"]} wants {exp.dtype}', rep=chm['rep'], **facts)
            elif got.shape != exp.shape:
                res.violation('channel-shape', f'op {k}: channel {chm["name"]} shape {got.shape}, expected {exp.shape}', rep=chm['rep'], **facts)
            elif not _eq_bits(np.ascontiguousarray(got), exp):
                bad = np.argwhere(np.ascontiguousarray(got).view(np.uint8).reshape(len(indices), -1) != exp.view(np.uint8).reshape(len(indices), -1))
                r = int(bad[0][0]) if len(bad) else -1
                res.violation('channel-values', f'op {k} {op[3]} chans={chans}: channel {c} {chm["name"]} rep {chm["rep"]} dims {chm["dims"]} row {r} '
                              f'(source frame {indices[r]}): got {got[r].flatten()[:4]}, recorded {exp[r].flatten()[:4]}',
                              rep=chm['rep'], channel_index=c, **facts)
    try:
        li_obj.__exit__(None, None, None)
        if shadow is not None:
            shadow[0].__exit__(None, None, None)
    except Exception as err:
        res.violation('close-exception', f'{type(err).__name__}: {err}', exc=type(err).__name__)
    res.events.append(('io', len(f.log), seeds.digest(f.log)))
    struct_shape = [[(len(fr['channels']), min(len(fr['rows']), 3), max(len(c) for c in [model['lfs'][li]['channels'][x]['dims'] for x in fr['channels']]))
                     for fr in lf['frames']] for li, lf in enumerate(model['lfs'])]
    res.shape = seeds.digest([op_shapes, struct_shape, model['layout']['style'], model['layout']['pack']])
    return res


def shadow_step(res, shadow, st, k):
    """Populate one frame array of the second file (alive at the same time) and hold it to what was written there."""
    sh_obj, sh_layout = shadow
    _, li, fi, sl = st
    res.op('shadow_populate')
    try:
        lf = sh_obj.logical_files[li]
        fa = lf.log_pass.frame_arrays[fi]
        fr = sh_layout['lfs'][li]['frames'][fi]
        n = len(fr['rows'])
        indices = select(sl, n)
        if not indices:
            return
        ret = lf.populate_frame_array(fa, make_slice(sl), None)
    except Exception as err:
        res.violation('populate-exception', f'before op {k}: second index, populate {st[1:]}: {type(err).__name__}: {err}', exc=type(err).__name__, second_index=True)
        return
    res.ev('shadow', k, li, fi, ret)
    if ret != len(indices):
        res.violation('populate-count', f'before op {k}: second index, populate {st[1:]} returned {ret}, selection has {len(indices)} frames', second_index=True)
        return
    for c, (ch, chm) in enumerate(zip(fa.channels, fr['channels'])):
        exp = expected_array(chm, fr['rows'], c, indices)
        got = np.ascontiguousarray(ch.array)
        if not _eq_bits(got, exp):
            res.violation('channel-values', f'before op {k}: second index, populate {st[1:]}: channel {chm["name"]} differs from what was written to its file',
                          rep=chm['rep'], channel_index=c, second_index=True)
            return


def candidates(scenario):
    import copy
    ops = scenario['ops']
    if scenario.get('shadow'):
        yield {k: v for k, v in scenario.items() if k != 'shadow'}
        st = scenario['shadow']['steps']
        for j in range(len(st)):
            if len(st) > 1:
                yield dict(scenario, shadow=dict(scenario['shadow'], steps=st[:j] + st[j + 1:]))
    model = scenario['model']
    for k in range(len(ops) - 1, -1, -1):
        yield dict(scenario, ops=ops[:k] + ops[k + 1:])
    if model['layout']['style'] != 'one' or model['layout']['pack'] != 'greedy':
        m = copy.deepcopy(model)
        m['layout']['style'], m['layout']['pack'] = 'one', 'greedy'
        yield dict(scenario, model=m)
    if model['trail']:
        m = copy.deepcopy(model)
        m['trail'] = False
        yield dict(scenario, model=m)
    # drop a logical file (ops on it are dropped, later ones renumbered)
    if len(model['lfs']) > 1:
        for d in range(len(model['lfs']) - 1, -1, -1):
            m = copy.deepcopy(model)
            del m['lfs'][d]
            new_ops = []
            for op in ops:
                if op[0] == 'populate':
                    if op[1] == d:
                        continue
                    if op[1] > d:
                        op = [op[0], op[1] - 1] + op[2:]
                new_ops.append(op)
            yield dict(scenario, model=m, ops=new_ops)
    # drop a frame type
    for li, lf in enumerate(model['lfs']):
        if len(lf['frames']) > 1:
            for d in range(len(lf['frames']) - 1, -1, -1):
                m = copy.deepcopy(model)
                l2 = m['lfs'][li]
                del l2['frames'][d]
                l2['order'] = [(k if k < d else k - 1) if k >= 0 else (k if -k - 1 < d else k + 1) for k in l2['order'] if (k if k >= 0 else -k - 1) != d]
                new_ops = []
                for op in ops:
                    if op[0] == 'populate' and op[1] == li:
                        if op[2] == d:
                            continue
                        if op[2] > d:
                            op = [op[0], op[1], op[2] - 1] + op[3:]
                    new_ops.append(op)
                yield dict(scenario, model=m, ops=new_ops)
    # drop rows from the end / halve
    for li, lf in enumerate(model['lfs']):
        for fi, fr in enumerate(lf['frames']):
            n = len(fr['rows'])
            for keep in sorted({1, n // 2, n - 1}):
                if 1 <= keep < n:
                    m = copy.deepcopy(model)
                    l2 = m['lfs'][li]
                    l2['frames'][fi]['rows'] = l2['frames'][fi]['rows'][:keep]
                    seen = 0
                    order = []
                    for k in l2['order']:
                        if k == fi:
                            seen += 1
                            if seen > keep:
                                continue
                        order.append(k)
                    l2['order'] = order
                    yield dict(scenario, model=m)
    # drop empty IFLRs
    for li, lf in enumerate(model['lfs']):
        if any(k < 0 for k in lf['order']):
            m = copy.deepcopy(model)
            m['lfs'][li]['order'] = [k for k in lf['order'] if k >= 0]
            yield dict(scenario, model=m)
    # drop the last channel of a frame type
    for li, lf in enumerate(model['lfs']):
        for fi, fr in enumerate(lf['frames']):
            if len(fr['channels']) > 1:
                for d in range(len(fr['channels']) - 1, 0, -1):
                    m = copy.deepcopy(model)
                    f2 = m['lfs'][li]['frames'][fi]
                    del f2['channels'][d]
                    for row in f2['rows']:
                        del row['bits'][d]
                    yield dict(scenario, model=m)
    # simplify op arguments
    for k, op in enumerate(ops):
        if op[0] == 'populate':
            if op[4] is not None:
                yield dict(scenario, ops=ops[:k] + [op[:4] + [None]] + ops[k + 1:])
            if op[3] is not None:
                yield dict(scenario, ops=ops[:k] + [op[:3] + [None, op[4]]] + ops[k + 1:])


def main(argv=None):
    return runner.main(sys.modules[__name__], argv)
