"""C11 - conversion to LAS keeps exactly the selected frames, channels and values.

Claimed under DESIGN rule (c): the content oracle evaluated on the single-file reference runs that
the C12 simulation performs (fresh process per file, SimFS, SimClock).  The schedule/fault
dimension is degenerate (one process, healthy files); what the simulator contributes is the
simulated file system (which outputs were created), the simulated clock and the producers.
"""
import io
import math
import os
import re
import sys

import numpy as np

from sim import runner, seeds
from worlds import batch

PROPERTY = 'C11'
LEVEL = 'exploration'
RUNS = {'quick': 8000, 'thorough': 200000}
RULE = ('scenario = one healthy generated RP66V1 / LIS / BIT file and a swarm configuration (Slice or Sample, channel subset incl. unknown names and the X name, '
        'reduction, field width, decimal format), converted by the real single-file converter in a fresh process; the LAS files are parsed by an independent '
        'reader of the ~A section and by LASRead, and compared with the content model. Non-trivial = a reach probe fires (step not dividing the frame count, '
        'sample smaller than frame count, channel subset, multi-valued channel with a non-first reduction, value wider than the field, several log passes, '
        'indirect X); distinct = distinct shape hash (converter, selection class, subset class, reduction, format, structure class)')
REAL = ['TotalDepth.RP66V1.ToLAS.single_rp66v1_file_to_las', 'TotalDepth.LIS.ToLAS.single_lis_file_to_las', 'TotalDepth.BIT.ToLAS.single_bit_path_to_las_path',
        'TotalDepth.LAS.core.WriteLAS', 'TotalDepth.common.Slice', 'TotalDepth.util.bin_file_type', 'TotalDepth.LAS.core.LASRead (readability oracle)']
STUB = ['datetime.utcnow / time.perf_counter -> SimClock', 'file-system calls logged by SimFS on a tmpfs scratch tree', 'input files -> independent producers']
ASSUMPTIONS = [
    'simulated machine: every process that runs library code has a 4 GiB address space (sim/runner.py MEMORY_LIMIT_BYTES); a request for more fails at once with MemoryError',
    'degenerate simulation dimension: single process, no injected fault',
    'values: |printed - expected| <= 0.5 unit of the last printed decimal (1+1e-9), expected = reduction applied to the model values in the channel dtype, widened to double',
    'BIT and LIS implied X values are compared with the same print tolerance plus the accumulated rounding of n additions',
    'Sample(N): at most N rows, strictly increasing source frames, first row is frame 0 (which frames a sample picks is C15)',
    'channel names are matched exactly as the format stores them (BIT/LIS mnemonics are 4 characters, blank padded)',
]
PROBES = ['non_fixed_point_format', 'path_held_other_bytes_before', 'long_log_gt16384_rows', 'negative_step', 'readability_not_demanded', 'names_collide_after_strip', 'empty_selection_skipped', 'step_not_dividing', 'sample_lt_frames', 'channel_subset', 'subset_unknown_name', 'multi_valued_reduced', 'value_wider_than_field', 'several_log_passes',
          'indirect_x', 'conv_bit', 'conv_rp66v1', 'conv_lis', 'single_frame_selected', 'subset_includes_x']
CONVERTERS_ENABLED = ['bit', 'rp66v1', 'lis']


def setup():
    import importlib
    for name in CONVERTERS_ENABLED:
        importlib.import_module(batch.CONVERTERS[name][0])
    import TotalDepth.LAS.core.WriteLAS  # noqa
    import TotalDepth.LAS.core.LASRead  # noqa
    from worlds import dlis_logical, lis_logical  # noqa


# ------------------------------------------------------------------------------------------------
def generate(seed, tier):
    rng = seeds.Rng(seed)
    conv = rng.pick(CONVERTERS_ENABLED)
    world = batch.NATIVE_WORLD[conv]
    gen = {'world': world, 'seed': rng.getrandbits(32), 'frames': rng.pick([4, 9, 20, 40])}
    long_log = conv == 'bit' and rng.chance(0.02)
    if long_log:
        # a full-length log: tens of thousands of rows in one LAS file (sizes are part of the swarm)
        gen.update(frames=rng.pick([16385, 16500, 20000, 33000]), long=True, passes=1)
    by, fields, info = batch.file_content(gen)
    names = channel_names(conv, info)
    sl = rng.wpick([(3, None), (5, 'slice'), (2, 'sample')])
    if sl == 'slice':
        sl = ['slice', rng.pick([None, None, 0, 1, 2, 5]), rng.pick([None, None, 3, 7, 20, -1, -2]), rng.pick([None, 1, 2, 3, 4, 7])]
        if rng.chance(0.15):
            sl = ['slice', rng.pick([None, -1, 20, 5]), rng.pick([None, 0, 2, -30]), -rng.pick([1, 1, 2, 3, 4])]
    elif sl == 'sample':
        sl = ['sample', rng.pick([1, 2, 3, 5, 8, 64])]
    if long_log:
        sl = rng.pick([None, None, ['slice', None, None, 2], ['slice', 3, None, None]])
    if rng.chance(0.5) or not names:
        chans = []
    else:
        chans = sorted(set(rng.sample(names, rng.randrange(1, min(4, len(names)) + 1)) + (['NOPE'] if rng.chance(0.25) else [])))
    cfg = {'slice': sl, 'channels': chans, 'reduce': rng.pick(['first', 'first', 'mean', 'median', 'min', 'max']),
           'width': rng.pick([16, 16, 12, 8, 20]), 'fmt': rng.pick(['.3f', '.3f', '.1f', '.6f', '.0f', '.3f', '.3e', '.6g', '.4', '.2E'])}
    ext = rng.pick(batch.EXT[world])
    return {'world': 'convert', 'converter': conv, 'recurse': False, 'config': cfg, 'files': [{'path': rng.pick(['f', 'f', 'well.v2', 'a_b', '.f', 'x y']) + ext, 'gen': gen}],
            'runs': [dict({'mode': 'alone', 'clock': {'base': 0.0}},
                          **({'stale_first': [['overwrite', rng.pick([0, 0, 4, 9, 80]), rng.rbytes(rng.pick([1, 4, 16])).hex()]]} if rng.chance(0.15) else {}))]}


def channel_names(conv, info):
    m = info['model']
    if conv == 'bit':
        return sorted({n for p in m['passes'] for n in p['channels']} | {'X   '})
    if conv == 'rp66v1':
        return sorted({c['name'] for lf in m['lfs'] for c in lf['channels']})
    return sorted({c['mnem'] for f in m['files'] for c in f['dfsr']['channels']})


# ------------------------------------------------------------------------------------------------
RE_NUM = re.compile(rb'^[-+]?(\d+\.?\d*|\.\d+)([eE][-+]?\d+)?$')


def parse_las(text: bytes):
    """Independent reader. Returns {'well': {MNEM: value str}, 'names': [...], 'rows': [[str tokens]], 'a_line': str}."""
    well = {}
    names = None
    rows = []
    section = None
    a_line = None
    comment_after_a = None
    for raw in text.split(b'\n'):
        line = raw.rstrip(b'\r')
        if line.startswith(b'~'):
            section = line[1:2].upper()
            if section == b'A':
                a_line = line
                toks = line.split()[1:]
                names = [t.decode('latin1') for t in toks]
            continue
        if section == b'W' and line and not line.startswith(b'#'):
            m = re.match(rb'^\s*([^.\s]+)\s*\.(\S*)\s+(.*?)\s*:(.*)$', line)
            if m:
                well[m.group(1).decode('latin1')] = (m.group(2).decode('latin1'), m.group(3).decode('latin1').strip())
        if section == b'A':
            if line.startswith(b'#'):
                if comment_after_a is None:
                    comment_after_a = line
                continue
            if line.strip():
                rows.append(line.split())
    return {'well': well, 'names': names, 'rows': rows, 'a_line': a_line, 'a_comment': comment_after_a}


def decimals(fmt, ev=0.0):
    """The decimal place of the last digit a correct writer prints for the value ev under the format: for fixed point formats
    the number after the dot; for the exponent / general / bare forms ('.3e', '.6g', '.4') it depends on the value, and is read
    off Python's own rendering of ev (trailing zeros that 'g' removes make the tolerance looser than necessary, never tighter)."""
    if fmt[-1] in 'fF':
        return int(fmt[1:-1])
    try:
        m = re.match(r'^[-+]?(\d+)(?:\.(\d*))?(?:[eE]([-+]?\d+))?$', format(float(ev), fmt))
    except (ValueError, OverflowError):
        m = None
    if not m:
        return 0
    return len(m.group(2) or '') - int(m.group(3) or 0)


def select_rows(sl, n):
    if sl is None:
        return list(range(n)), 'all'
    if sl[0] == 'slice':
        return list(range(*slice(sl[1], sl[2], sl[3]).indices(n))), 'slice'
    return None, 'sample'


def reduce_vals(arr, how):
    if how == 'first':
        return arr.flatten()[0]
    return getattr(np, how)(arr)


# ------------------------------------------------------------------------------------------------
# expected log passes per converter: list of {'out': relpath, 'frames': n, 'columns': [{'name', 'x': bool, 'values': [np arrays per frame] or floats}]}
def expected_passes(conv, info, path_rel, cfg):
    m = info['model']
    out = []
    if conv == 'bit':
        from worlds import bit as B
        for k, (p, pl) in enumerate(zip(m['passes'], info['layout']['passes'])):
            n = pl['frames']
            xs = B.expected_x(pl['x'], n)
            cols = [{'name': 'X   ', 'x': True, 'kind': 'float', 'vals': [np.array([x]) for x in xs], 'acc': n}]
            for c, name in enumerate(p['channels']):
                cols.append({'name': name, 'x': False, 'kind': 'float', 'vals': [np.array([B.ibm_decode(w)]) for w in p['values'][c]], 'acc': 0})
            out.append({'out': f'{path_rel}_{k:04d}.las', 'frames': n, 'cols': cols, 'reduce': 'first', 'x_name': 'X   '})
        return out
    if conv == 'rp66v1':
        from worlds import dlis_logical as DL
        stem = os.path.splitext(path_rel)[0]
        for li, (lf, lr) in enumerate(zip(m['lfs'], info['layout']['lfs'])):
            for fr in lr['frames']:
                n = len(fr['rows'])
                cols = []
                for c, ch in enumerate(fr['channels']):
                    dt = DL.CODE_DTYPE[ch['rep']]
                    vals = [np.array([DL.ref_value(ch['rep'], b) for b in row['bits'][c]], dtype=dt).reshape(ch['dims']) for row in fr['rows']]
                    cols.append({'name': ch['name'], 'x': c == 0, 'kind': 'int' if np.issubdtype(dt, np.integer) else 'float', 'vals': vals, 'acc': 0})
                out.append({'out': f'{stem}_{li}_{fr["name"]}.las', 'frames': n, 'cols': cols, 'reduce': cfg['reduce'], 'x_name': fr['channels'][0]['name']})
        return out
    from worlds import lis_logical as LL
    for fi, f in enumerate(m['files']):
        d = f['dfsr']
        n = len(f['frames'])
        cols = []
        if d['indirect']:
            cols.append({'name': 'X', 'x': True, 'kind': 'float', 'vals': [np.array([LL.x_of_frame(f, k)]) for k in range(n)], 'acc': n})
        for c, ch in enumerate(d['channels']):
            vals = [np.array([LL.ref_value(ch['rc'], w) for w in f['frames'][k][c]]) for k in range(n)]
            cols.append({'name': ch['mnem'], 'x': (c == 0 and not d['indirect']), 'kind': 'float', 'vals': vals, 'acc': 0})
        out.append({'out': f'{path_rel}_{fi}.las', 'frames': n, 'cols': cols, 'reduce': cfg['reduce'], 'x_name': 'X' if d['indirect'] else d['channels'][0]['mnem'],
                    'indirect': d['indirect']})
    return out


def execute(scenario):
    res = runner.Result()
    br = batch.BatchRun(scenario)
    try:
        return _execute(scenario, res, br)
    finally:
        br.cleanup()


def _execute(scenario, res, br):
    conv = scenario['converter']
    cfg = scenario['config']
    spec = scenario['files'][0]
    rel = spec['path']
    by, fields, info = batch.file_content(spec['gen'])
    res.probe('conv_' + conv)
    r = br.run('alone', scenario['runs'][0], alone=rel)
    res.op('convert')
    if r.get('stale_first_done'):
        res.probe('path_held_other_bytes_before')
    res.sim_time = r.get('sim_time', 0.0)
    facts0 = {'converter': conv, 'slice_kind': 'none' if cfg['slice'] is None else (cfg['slice'][0] if cfg['slice'][0] != 'slice' or (cfg['slice'][3] or 1) > 0 else 'slice-descending'), 'subset': bool(cfg['channels']), 'reduce': cfg['reduce']}
    res.ev('run', r['status'], sorted(r['results'].items()), sorted((p, seeds.digest(t)) for p, t in r['tree'].items()))
    if r['status'] != 'ok':
        res.violation('convert-raises', f'{r.get("detail")} at {r.get("where")}', exc=r.get('exc'), where=r.get('where'), **facts0)
        res.shape = seeds.digest([conv, 'raises'])
        return res
    result = r['results'].get(rel)
    passes = expected_passes(conv, info, rel, cfg)
    if len(passes) > 1:
        res.probe('several_log_passes')
    if cfg['channels']:
        res.probe('channel_subset')
        if 'NOPE' in cfg['channels']:
            res.probe('subset_unknown_name')
    if result is None or result['ignored']:
        res.violation('healthy-ignored', f'healthy {conv} file ignored: result {result}', **facts0)
        res.shape = seeds.digest([conv, 'ignored'])
        return res
    sel_classes = []
    # a selection that is empty for some log pass is outside the statement ("frames selected"): nothing is judged
    for p_ in passes:
        rws, _k = select_rows(cfg['slice'], p_['frames'])
        if rws is not None and len(rws) == 0:
            res.probe('empty_selection_skipped')
            res.shape = seeds.digest([conv, 'empty-selection'])
            return res
    any_fail = result['exception']
    if result['exception']:
        res.violation('conversion-failed', f'healthy {conv} file: the converter reports exception=True, {result["las_count"]} LAS files; config {cfg}; '
                      f'log passes of {[p["frames"] for p in passes]} frames', las_count=result['las_count'],
                      frames_min=min(min(p['frames'] for p in passes), 3), **facts0)
    tree = r['tree']
    want_paths = sorted(p['out'] for p in passes)
    if not result['exception']:
        if sorted(tree) != want_paths:
            res.violation('las-files', f'LAS files written {sorted(tree)}, one per log pass would be {want_paths}', written=len(tree), expected=len(want_paths), **facts0)
        if result['las_count'] != len(tree):
            res.violation('las-count', f'result las_count {result["las_count"]}, files written {len(tree)}', **facts0)
    fmt_ = cfg['fmt']
    if fmt_[-1] not in 'fF':
        res.probe('non_fixed_point_format')
    for p in passes:
        n = p['frames']
        rows, kind = select_rows(cfg['slice'], n)
        facts = dict(facts0, frames=min(n, 3))
        text = tree.get(p['out'])
        if text is None:
            continue
        las = parse_las(text)
        # which columns: X + requested channels that exist (all if none requested)
        want_cols = [c for c in p['cols'] if c['x'] or not cfg['channels'] or c['name'] in cfg['channels']]
        if cfg['channels'] and p['x_name'] in cfg['channels']:
            res.probe('subset_includes_x')
        if rows is not None and len(rows) == 0:
            # nothing selected: no data section demanded
            if las['rows']:
                res.violation('rows-for-empty-selection', f'{p["out"]}: {len(las["rows"])} rows written for a selection of no frame', **facts)
            continue
        # ---- readable (LASRead refuses repeated X values: only demanded when the chosen format resolves the X spacing)
        if any_fail:
            continue
        try:
            x_tokens = [float(rw[0]) for rw in las['rows'] if rw]
        except ValueError:
            x_tokens = []
        try:
            if len(set(x_tokens)) != len(x_tokens):
                raise StopIteration
            stripped_ = [c['name'].strip() for c in want_cols]
            if len(set(stripped_)) != len(stripped_):
                # channels of the source whose names differ only in surrounding blanks: LAS mnemonics cannot tell them apart, so
                # no reader can be expected to accept the file; rows, columns and values are still checked below
                res.probe('names_collide_after_strip')
                raise StopIteration
            from TotalDepth.LAS.core import LASRead
            lr = LASRead.LASRead(io.StringIO(text.decode('latin1')), p['out'])
            _ = lr.frame_array
        except StopIteration:
            res.probe('readability_not_demanded')
        except Exception as err:
            together = any(len(rw) < len(want_cols) for rw in las['rows'])
            res.violation('las-unreadable', f'{p["out"]}: LASRead raises {type(err).__name__}: {str(err)[:200]}', exc=type(err).__name__,
                          columns_run_together=together, **facts)
        # ---- rows
        got_rows = las['rows']
        if any(len(rw) != len(want_cols) for rw in got_rows):
            bad = next(rw for rw in got_rows if len(rw) != len(want_cols))
            wide = any(len(t) >= cfg['width'] for t in bad)
            if wide:
                res.probe('value_wider_than_field')
            res.violation('columns', f'{p["out"]}: a data row has {len(bad)} values, expected X + requested existing channels = {[c["name"] for c in want_cols]} '
                          f'({len(want_cols)}); row {b" ".join(bad)[:120]!r}; ~A line {las["a_line"]!r}', wide_value=wide, **facts)
            continue
        try:
            mat = [[float(t) for t in rw] for rw in got_rows]
        except ValueError:
            res.violation('non-numeric', f'{p["out"]}: non numeric token in the data section', **facts)
            continue
        if rows is None:
            N = cfg['slice'][1]
            res.probe('sample_lt_frames') if N < n else None
            if len(mat) > N or len(mat) == 0 or len(mat) > n:
                res.violation('sample-count', f'{p["out"]}: Sample({N}) of {n} frames wrote {len(mat)} rows', **facts)
                continue
            # attribute rows to source frames: among the increasing frame indices at which every column matches to within
            # print precision (+ a 1.5e-7 relative allowance, for attribution only) take the one with the fewest strict mismatches
            def col_err(rw, k):
                relaxed_ok, strict_bad = True, 0
                for ci, c in enumerate(want_cols):
                    ev = float(reduce_vals(c['vals'][k], p['reduce']))
                    t = tol(decimals(fmt_, ev) if c['kind'] == 'float' else 0, ev, c['acc'])
                    e = abs(rw[ci] - ev)
                    if e > t + 1.5e-7 * abs(ev):
                        relaxed_ok = False
                        break
                    if e > t:
                        strict_bad += 1
                return relaxed_ok, strict_bad
            src = []
            k0 = 0
            okx = True
            for rw in mat:
                best = None
                for k in range(k0, n):
                    ok_, bad_ = col_err(rw, k)
                    if ok_ and (best is None or bad_ < best[0]):
                        best = (bad_, k)
                        if bad_ == 0:
                            break
                if best is None:
                    okx = False
                    break
                src.append(best[1])
                k0 = best[1] + 1
            if not okx or src[0] != 0:
                res.violation('sample-rows', f'{p["out"]}: Sample({N}) of {n} frames: the {len(mat)} rows are not an increasing selection of source frames starting with the first '
                              f'(matched {src[:8]}, first rows {[b" ".join(r_)[:60] for r_ in got_rows[:3]]})', **facts)
                continue
            rows = src
        else:
            if cfg['slice'] is not None and cfg['slice'][0] == 'slice' and (cfg['slice'][3] or 1) > 1 and (n % (cfg['slice'][3] or 1)):
                res.probe('step_not_dividing')
            if len(mat) != len(rows):
                res.violation('row-count', f'{p["out"]}: {len(mat)} rows written, the selection {cfg["slice"]} of {n} frames has {len(rows)} (frames {rows[:8]}..)',
                              fewer=len(mat) < len(rows), **facts)
                continue
        if len(rows) == 1:
            res.probe('single_frame_selected')
        if len(rows) > 16384:
            res.probe('long_log_gt16384_rows')
        if cfg['slice'] and cfg['slice'][0] == 'slice' and (cfg['slice'][3] or 1) < 0:
            res.probe('negative_step')
        if p.get('indirect'):
            res.probe('indirect_x')
        sel_classes.append((kind, min(len(rows), 3)))
        # ---- values
        bad_value = False
        for ri, k in enumerate(rows):
            for ci, c in enumerate(want_cols):
                arr = c['vals'][k]
                if arr.size > 1 and p['reduce'] != 'first':
                    res.probe('multi_valued_reduced')
                ev = float(reduce_vals(arr, p['reduce']))
                dd = decimals(fmt_, ev) if c['kind'] == 'float' else 0
                if abs(mat[ri][ci] - ev) > tol(dd, ev, c['acc']):
                    alt = ev * (16777216.0 / 16777215.0)
                    res.violation('value', f'{p["out"]}: row {ri} (frame {k}) column {c["name"]!r}: printed {got_rows[ri][ci].decode()}, source value {ev!r} '
                                  f'(reduction {p["reduce"]} of {arr.flatten()[:4]}), format {cfg["fmt"]}', column_is_x=c['x'], kind=c['kind'],
                                  multi=arr.size > 1, implied_x=bool(p.get('indirect') and c['x']), matches_divisor_ffffff=bool(conv == 'bit' and abs(mat[ri][ci] - alt) <= tol(dd, alt, 0)), **facts)
                    bad_value = True
                    break
            if bad_value:
                break
        # ---- well section: STRT / STOP / STEP describe the rows written
        xcol = next(i for i, c in enumerate(want_cols) if c['x'])
        xs = [float(reduce_vals(want_cols[xcol]['vals'][k], p['reduce'])) for k in rows]
        # for a Sample the attribution of the last row can be ambiguous at the print precision: every frame that matches it is a candidate
        last_candidates = [rows[-1]]
        if kind == 'sample' and len(rows) > 1:
            last_candidates = [k for k in range(rows[-2] + 1, n)
                               if all(abs(mat[-1][ci] - float(reduce_vals(c['vals'][k], p['reduce']))) <= tol(decimals(fmt_, float(reduce_vals(c['vals'][k], p['reduce']))) if c['kind'] == 'float' else 0, float(reduce_vals(c['vals'][k], p['reduce'])), c['acc'])
                                      + 1.5e-7 * abs(float(reduce_vals(c['vals'][k], p['reduce']))) for ci, c in enumerate(want_cols))] or [rows[-1]]
        w = las['well']
        verdicts = []
        for kl in last_candidates:
            x_last = float(reduce_vals(want_cols[xcol]['vals'][kl], p['reduce']))
            bad = []
            for key, exp in (('STRT', xs[0]), ('STOP', x_last), ('STEP', (x_last - xs[0]) / (len(xs) - 1) if len(xs) > 1 else None)):
                if key not in w:
                    bad.append(('well-missing', key, f'{p["out"]}: the well section has no {key} (has {sorted(w)[:8]})'))
                    continue
                if exp is None:
                    continue
                try:
                    gv = float(w[key][1].split()[-1])       # units with blanks (legal in RP66V1, e.g. '0.1 in') spill into the value field
                except (ValueError, IndexError):
                    bad.append(('well-value', key, f'{p["out"]}: {key} = {w[key][1]!r} is not a number; rows written start {xs[0]!r} stop {x_last!r}'))
                    continue
                scale = units_scale(conv, info, p, w[key][0])
                if scale is None:
                    continue
                xd = decimals(fmt_, exp * scale) if conv == 'lis' else 9
                if abs(gv - exp * scale) > max(0.5 * 10.0 ** -xd, 1e-6 * abs(exp * scale)) + 1e-9:
                    bad.append(('well-value', key, f'{p["out"]}: {key} = {gv!r}, the rows written give {exp * scale!r} (first X {xs[0]!r}, last X {x_last!r}, {len(xs)} rows, '
                                f'selection {cfg["slice"]} of {n} frames)'))
            verdicts.append(bad)
            if not bad:
                break
        best = min(verdicts, key=len)
        for cls, key, msg in best:
            res.violation(cls, msg, key=key, stepped=_stepped(cfg), **facts)
    res.shape = seeds.digest([conv, sel_classes, bool(cfg['channels']), cfg['reduce'], cfg['fmt'], cfg['width'], len(passes)])
    return res


def _stepped(cfg):
    s = cfg['slice']
    return bool(s is not None and (s[0] == 'sample' or (s[3] or 1) > 1 or s[1] or s[2] is not None))


def units_scale(conv, info, p, units):
    """LIS well section is written in 'optical' units (feet / metres / seconds): only compare when no conversion is involved."""
    if conv != 'lis':
        return 1.0
    return None


def tol(d, ev, acc):
    return 0.5 * 10.0 ** -d * (1 + 1e-9) + abs(ev) * 2.3e-16 * (4 + 2 * acc)


def candidates(scenario):
    cfg = scenario['config']
    for key, val in (('slice', None), ('channels', []), ('reduce', 'first'), ('width', 16), ('fmt', '.3f')):
        if cfg[key] != val:
            yield dict(scenario, config=dict(cfg, **{key: val}))
    if len(cfg['channels']) > 1:
        for j in range(len(cfg['channels'])):
            yield dict(scenario, config=dict(cfg, channels=cfg['channels'][:j] + cfg['channels'][j + 1:]))
    f = scenario['files'][0]
    for fr in (4, 9):
        if f['gen'].get('frames', 0) > fr:
            yield dict(scenario, files=[dict(f, gen=dict(f['gen'], frames=fr))])
    s = cfg['slice']
    if s and s[0] == 'slice':
        for new in (['slice', None, s[2], s[3]], ['slice', s[1], None, s[3]], ['slice', s[1], s[2], None]):
            if new != s:
                yield dict(scenario, config=dict(cfg, slice=new))


def main(argv=None):
    return runner.main(sys.modules[__name__], argv)
