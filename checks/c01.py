"""C01 - DLIS logical records are reassembled exactly from any physical layout.

Claimed under DESIGN rule (c): the fault-free base case of the C02 simulation.  The simulator
contributes the storage seam (SimFile), the producer peer that chooses the fragmentation, and the
recorded I/O history; the schedule dimension is degenerate (one sequential reader, two passes) and
no fault is injected (the statement is about conformant files).
"""
import sys

from sim import runner, seeds
from sim.simfile import SimFile, EventClock
from worlds import dlis_phys as D

PROPERTY = 'C01'
LEVEL = 'exploration'
RUNS = {'quick': 30000, 'thorough': 600000}
RULE = ('scenario = seeded physical model (SUL, records, segmentation, packing into visible records) built by the '
        'independent producer and read by the real FileRead.iter_logical_records through SimFile; a case is '
        'non-trivial when it hits at least one reach probe (record spanning >=3 visible records, 16 byte segment, '
        'pad count >= 4, zero-length payload, checksum+trailing length, visible record of 20 or 16384 bytes, '
        'sequence number / maximum length containing a 0 digit, encrypted record); distinct = distinct shape hash '
        '(number of records, per record segment-count class / VR-count class / flags, SUL classes), payload bytes abstracted away')
REAL = ['TotalDepth.RP66V1.core.File.FileRead (pFile.py): StorageUnitLabel, VisibleRecord, LogicalRecordSegmentHeader, iter_logical_records']
STUB = ['file object -> SimFile (in-memory, access-logged)', 'file writer -> independent RP66V1 producer worlds/dlis_phys.py']
ASSUMPTIONS = [
    'simulated machine: every process that runs library code has a 4 GiB address space (sim/runner.py MEMORY_LIMIT_BYTES); a request for more fails at once with MemoryError',
    'degenerate simulation dimension: one sequential reader, no injected fault (statement covers conformant files only)',
    'producer sub-language: no encryption packets, encrypted segments carry no pad bytes, trailing length is all-or-nothing per file',
    'checksums are written but their value is not verified by any reader in scope',
    'files <= 64 kB',
]
PROBES = ['two_readers_interleaved', 'span_ge3_vr', 'seg16', 'pad_ge4', 'zero_payload', 'chk_and_trail', 'vr20', 'vr16384', 'seq_with_zero',
          'maxlen_with_zero', 'encrypted', 'pad_ge100', 'second_pass', 'history_before_scan', 'iterator_created_before_history', 'reader_reentered', 'file_object_with_foreign_fileno', 'file_object_not_at_start', 'peek_during_scan', 'path_plain', 'path_dot', 'path_slashes', 'path_dotdot', 'path_link_dotdot']

File = None


def setup():
    global File
    from TotalDepth.RP66V1.core import File as _F
    File = _F


def generate(seed, tier):
    rng = seeds.Rng(seed)
    model = D.gen_model(rng)
    sc = {'world': 'dlis_phys', 'model': model, 'passes': 2 if rng.chance(0.3) else 1}
    if rng.chance(0.15):
        # while the sequential read is under way the caller looks into the record just delivered through the random access call
        # of the same reader (whole, or the first bytes), then carries on reading: {record index: [offset, length]}
        peeks = {}
        for i in rng.sample(range(len(model['records'])), min(len(model['records']), rng.randrange(1, 4))):
            total = sum(s_['n'] for s_ in model['records'][i]['segs'])
            peeks[str(i)] = [rng.pick([0, 0, 1, max(0, total // 2)]), rng.pick([-1, 0, 1, 8, 8, max(1, total // 3), total + 5])]
        sc['peeks'] = peeks
    if rng.chance(0.06):
        sc['path_spelling'] = rng.pick(['plain', 'dot', 'slashes', 'dotdot', 'link_dotdot', 'link_dotdot'])
        return sc
    if rng.chance(0.12):
        sc['start_offset'] = rng.pick(['end', 'end', 1, 20, 80, 84, 200])
    if rng.chance(0.1):
        sc['foreign_fileno'] = True      # a file object whose fileno() is not the stream it delivers (gzip.open() and the like)
    if rng.chance(0.3):
        # history on the same reader object: other complete operations run before the sequential read is consumed, and the
        # iterator of the sequential read may have been created (not advanced) before them
        nrec = len(model['records'])
        ops = []
        for _ in range(rng.randrange(1, 4)):
            kind = rng.pick(['positions', 'visible', 'lrsh', 'fetch', 'abandoned_scan', 'validate'])
            ops.append([kind, rng.randrange(max(1, nrec)), rng.randrange(1, 5)])
        sc['history'] = {'lazy': rng.chance(0.6), 'ops': ops}
    if rng.chance(0.15):
        # the reader is left and entered again on the same file object, whose content has meanwhile been replaced by another
        # conformant file (or is unchanged): everything reported afterwards is about the bytes that are there now
        sc['reenter'] = D.gen_model(seeds.Rng(rng.getrandbits(32)), max_records=8) if rng.chance(0.7) else 'same'
    if rng.chance(0.2):
        # a second reader on another file, alive at the same time; the two sequential reads are interleaved record by record
        # by an explicit schedule (0 = step this reader, 1 = step the other one)
        sc['other'] = D.gen_model(seeds.Rng(rng.getrandbits(32)), max_records=10)
        sc['schedule'] = [rng.randrange(2) for _ in range(60)]
    return sc


def shape_of(model):
    recs = []
    for rec in model['records']:
        recs.append((min(len(rec['segs']), 4), rec['eflr'], rec['enc'], any(s['chk'] for s in rec['segs']),
                     any(s['pad'] >= 4 for s in rec['segs']), any(s['newvr'] for s in rec['segs'])))
    sul = model['sul']
    return seeds.digest([recs, model['trail'], sul['seq'].strip('0 ') != sul['seq'].strip(), '0' in sul['maxlen'].strip().lstrip('0')])


def sul_facts(sul):
    seq = sul['seq'].strip().lstrip('0')
    ml = sul['maxlen'].strip().lstrip('0')
    return {'seq_has_zero_digit': '0' in seq, 'maxlen_has_zero_digit': '0' in ml}


def probes_of(res, model, layout):
    trail = model['trail']
    mx = D.maxlen_of(model)
    for rec, rl in zip(model['records'], layout['records']):
        if rl['n_vrs'] >= 3:
            res.probe('span_ge3_vr')
        if len(rl['payload']) == 0:
            res.probe('zero_payload')
        if rec['enc']:
            res.probe('encrypted')
        for s in rec['segs']:
            if D.seg_length(s, trail) == 16:
                res.probe('seg16')
            if s['pad'] >= 4:
                res.probe('pad_ge4')
            if s['pad'] >= 100:
                res.probe('pad_ge100')
            if s['chk'] and trail:
                res.probe('chk_and_trail')
    for pos, ln in layout['vrs']:
        if ln == 20:
            res.probe('vr20')
        if ln == 16384:
            res.probe('vr16384')
    f = sul_facts(model['sul'])
    if f['seq_has_zero_digit']:
        res.probe('seq_with_zero')
    if f['maxlen_has_zero_digit']:
        res.probe('maxlen_with_zero')


def check_sul(res, sul_obj, sul):
    exp = {
        'storage_unit_sequence_number': int(sul['seq']),
        'dlis_version': b'V1.00',
        'storage_unit_structure': b'RECORD',
        'maximum_record_length': int(sul['maxlen']),
        'storage_set_identifier': sul['ident'].encode('ascii'),
    }
    for k, v in exp.items():
        got = getattr(sul_obj, k, None)
        if got != v:
            res.violation('sul-field-mismatch', f'SUL field {k}: written {v!r}, reported {got!r}', field=k, **sul_facts(sul))


def run_history_op(res, reader, layout, op):
    """One complete operation of another kind on the same reader (its result is C02's business; here it is history)."""
    kind, k, m = op
    res.op('history_' + kind)
    if kind == 'positions':
        n = sum(1 for _ in reader.iter_logical_record_positions())
    elif kind == 'visible':
        n = sum(1 for _ in reader.iter_visible_records())
    elif kind == 'lrsh':
        vrs = list(reader.iter_visible_records())
        n = sum(1 for _ in reader.iter_LRSHs_for_visible_record(vrs[k % len(vrs)])) if vrs else 0
    elif kind == 'fetch':
        pos = [p for p in reader.iter_logical_record_positions()]
        if pos:
            reader.get_file_logical_data(pos[k % len(pos)].position, 0, -1)
        n = len(pos)
    elif kind == 'validate':
        reader.validate_positions() if hasattr(reader, 'validate_positions') else None
        n = 0
    else:
        # a sequential read that is given up after m records
        it = reader.iter_logical_records()
        n = 0
        for _ in it:
            n += 1
            if n >= m:
                break
        it.close()
    res.ev('history', kind, n)


def sequential_read(res, reader, layout, tag, history=None, peeks=None):
    """Drives iter_logical_records() on an entered FileRead; compares as each record is yielded.
    Returns the list of payloads actually read (None on exception)."""
    exp = layout['records']
    got = []
    iterator = None
    if history:
        res.probe('history_before_scan')
        try:
            if history.get('lazy'):
                iterator = reader.iter_logical_records()
                res.probe('iterator_created_before_history')
            for op in history['ops']:
                run_history_op(res, reader, layout, op)
        except Exception as err:
            res.violation('history-exception', f'{type(err).__name__}: {err} in history {history}', exc=type(err).__name__)
            return None
    try:
        for i, fld in enumerate(iterator if iterator is not None else reader.iter_logical_records()):
            pay = fld.logical_data.bytes if fld.logical_data is not None else None
            got.append(pay)
            res.ev(tag, i, fld.lr_type, fld.lr_is_eflr, len(pay) if pay is not None else -1, seeds.digest(pay))
            if i >= len(exp):
                continue
            e = exp[i]
            if fld.lr_is_eflr != e['eflr']:
                res.violation('record-kind', f'record {i}: kind eflr={fld.lr_is_eflr}, written eflr={e["eflr"]}', record=i)
            if fld.lr_type != e['type']:
                res.violation('record-type', f'record {i}: type {fld.lr_type}, written {e["type"]}', record=i)
            if pay != e['payload']:
                n = len(e['payload'])
                res.violation('record-payload', f'record {i}: payload of {len(pay) if pay is not None else None} bytes, written {n} bytes; '
                              f'first difference at {first_diff(pay, e["payload"])}',
                              segments=len(e['segs']), n_vrs=e['n_vrs'], encrypted=e['enc'])
            if fld.lr_is_encrypted != e['enc']:
                res.violation('record-encrypted-flag', f'record {i}: encrypted flag {fld.lr_is_encrypted}, written {e["enc"]}', record=i)
            if (fld.position.vr_position, fld.position.lrsh_position) != (e['vr_pos'], e['lrsh_pos']):
                res.violation('record-position', f'record {i}: position VR {fld.position.vr_position} LRSH {fld.position.lrsh_position}, '
                              f'written VR {e["vr_pos"]} LRSH {e["lrsh_pos"]}', record=i)
            if peeks and str(i) in peeks:
                off, ln = peeks[str(i)]
                res.probe('peek_during_scan')
                res.op('peek')
                try:
                    pk = reader.get_file_logical_data(fld.position, off, ln).logical_data.bytes
                    want = e['payload'][off:] if ln < 0 else e['payload'][off:off + ln]
                    if pk != want:
                        res.violation('record-payload', f'record {i}: looking into the record just delivered (offset {off}, length {ln}) returned {len(pk)} bytes, '
                                      f'expected {len(want)}', segments=len(e['segs']), n_vrs=e['n_vrs'], encrypted=e['enc'], peek=True)
                except Exception as err:
                    res.violation('read-exception', f'record {i}: looking into the record just delivered (offset {off}, length {ln}) raised {type(err).__name__}: {err}',
                                  exc=type(err).__name__, peek=True)
    except Exception as err:
        res.violation('read-exception', f'{type(err).__name__}: {err} after {len(got)} records', exc=type(err).__name__)
        return None
    if len(got) != len(exp):
        res.violation('record-count', f'{len(got)} records read, {len(exp)} written', read=len(got), written=len(exp))
    return got


def first_diff(a, b):
    if a is None or b is None:
        return None
    for k, (x, y) in enumerate(zip(a, b)):
        if x != y:
            return k
    return min(len(a), len(b))


def spelled_path(by, how):
    """Writes the bytes to <scratch>/store/sub/f.dlis and returns (scratch dir, a spelling of that path):
    plain | dot (./ components) | slashes (doubled separators) | dotdot (through a real directory and back) |
    link_dotdot (through a symbolic link to a directory elsewhere and '..': the text 'work/latest/..' is NOT 'work')."""
    import os
    import shutil
    from sim import build as simbuild
    d = os.path.join(simbuild.scratch_root(), f'tdsim-{os.getpid()}', 'c01')
    shutil.rmtree(d, ignore_errors=True)
    os.makedirs(os.path.join(d, 'store', 'sub', 'inner'))
    os.makedirs(os.path.join(d, 'work'))
    with open(os.path.join(d, 'store', 'sub', 'f.dlis'), 'wb') as fh:
        fh.write(by)
    os.symlink(os.path.join(d, 'store', 'sub', 'inner'), os.path.join(d, 'work', 'latest'))
    spelled = {
        'plain': f'{d}/store/sub/f.dlis',
        'dot': f'{d}/./store/./sub/./f.dlis',
        'slashes': f'{d}//store///sub//f.dlis',
        'dotdot': f'{d}/store/sub/inner/../f.dlis',
        'link_dotdot': f'{d}/work/latest/../f.dlis',
    }[how]
    return d, spelled


def execute(scenario):
    res = runner.Result()
    model = scenario['model']
    by, layout = D.build(model)
    # model validation: the independent reference reader must agree with the producer (harness error otherwise)
    sul_ref, recs_ref = D.ref_read(by)
    assert [r['payload'] for r in recs_ref] == [r['payload'] for r in layout['records']], 'producer/reference reader disagree'
    probes_of(res, model, layout)
    res.shape = shape_of(model)
    clock = EventClock()
    f = SimFile(by, clock, foreign_fileno=bool(scenario.get('foreign_fileno')))
    if scenario.get('start_offset') is not None:
        # the caller has used the file object before: it is not at the start (just written, or its first bytes inspected)
        f.seek(len(by) if scenario['start_offset'] == 'end' else min(scenario['start_offset'], len(by)))
        res.probe('file_object_not_at_start')
    if scenario.get('foreign_fileno'):
        res.probe('file_object_with_foreign_fileno')
    res.op('open')
    path_dir = None
    try:
        if scenario.get('path_spelling'):
            # the reader is given a path, spelled in a way that names the same file less directly
            path_dir, spelled = spelled_path(by, scenario['path_spelling'])
            res.probe('path_' + scenario['path_spelling'])
            reader = File.FileRead(spelled)
        else:
            reader = File.FileRead(f)
        reader._enter()
    except Exception as err:
        res.violation('sul-rejected' if 'SUL' in str(err) or 'StorageUnitLabel' in type(err).__name__ else 'open-exception',
                      f'{type(err).__name__}: {err}', exc=type(err).__name__, **sul_facts(model['sul']))
        res.events.extend(f.log)
        return res
    check_sul(res, reader.sul, model['sul'])
    for p in range(scenario.get('passes', 1)):
        res.op('scan')
        if p:
            res.probe('second_pass')
        sequential_read(res, reader, layout, f'scan{p}', scenario.get('history') if p == scenario.get('passes', 1) - 1 else None,
                        scenario.get('peeks') if p == 0 else None)
    if scenario.get('reenter') is not None:
        res.probe('reader_reentered')
        res.op('reenter')
        m2 = model if scenario['reenter'] == 'same' else scenario['reenter']
        by2, layout2 = D.build(m2)
        try:
            reader._exit()
            f.set_content(by2)
            reader._enter()
        except Exception as err:
            res.violation('open-exception', f're-entering the reader: {type(err).__name__}: {err}', exc=type(err).__name__, reentered=True, **sul_facts(m2['sul']))
            res.events.extend(f.log)
            return res
        n0 = len(res.violations)
        check_sul(res, reader.sul, m2['sul'])
        sequential_read(res, reader, layout2, 'rescan')
        for v in res.violations[n0:]:
            v['facts']['reentered'] = True
            v['detail'] = 'after leaving and re-entering the reader on replaced content: ' + v['detail']
        model, layout = m2, layout2
    if scenario.get('other') is not None:
        interleaved(res, scenario, reader, layout, clock)
    try:
        reader._exit()
    except Exception as err:
        res.violation('close-exception', f'{type(err).__name__}: {err}', exc=type(err).__name__)
    if path_dir:
        import shutil
        shutil.rmtree(path_dir, ignore_errors=True)
    res.events.extend(f.log)
    return res


def interleaved(res, scenario, reader_a, layout_a, clock):
    """Two readers alive at once, each on its own file; their sequential reads are stepped in the order the schedule says."""
    res.probe('two_readers_interleaved')
    res.op('interleaved_scan')
    by_b, layout_b = D.build(scenario['other'])
    fb = SimFile(by_b, clock, name='<sim-b>')
    try:
        reader_b = File.FileRead(fb)
        reader_b._enter()
    except Exception as err:
        res.violation('open-exception', f'second reader: {type(err).__name__}: {err}', exc=type(err).__name__, **sul_facts(scenario['other']['sul']))
        return
    gens = [reader_a.iter_logical_records(), reader_b.iter_logical_records()]
    exps = [layout_a['records'], layout_b['records']]
    counts = [0, 0]
    done = [False, False]
    sched = list(scenario.get('schedule') or [0])
    k = 0
    while not all(done):
        w = sched[k % len(sched)]
        k += 1
        if done[w]:
            w = 1 - w
        try:
            fld = next(gens[w])
        except StopIteration:
            done[w] = True
            if counts[w] != len(exps[w]):
                res.violation('record-count', f'interleaved readers: reader {w} yielded {counts[w]} records, {len(exps[w])} written', read=counts[w],
                              written=len(exps[w]), interleaved=True)
            continue
        except Exception as err:
            res.violation('read-exception', f'interleaved readers (two FileRead objects alive, schedule {sched[:12]}..): reader {w} raised {type(err).__name__}: {err} '
                          f'after {counts[w]} records', exc=type(err).__name__, interleaved=True)
            return
        i = counts[w]
        counts[w] += 1
        pay = fld.logical_data.bytes if fld.logical_data is not None else None
        res.ev('ileave', w, i, fld.lr_type, fld.lr_is_eflr, seeds.digest(pay))
        if i < len(exps[w]):
            e = exps[w][i]
            if (fld.lr_is_eflr, fld.lr_type, pay) != (e['eflr'], e['type'], e['payload']):
                res.violation('record-payload', f'interleaved readers: reader {w} record {i}: kind/type/payload differ from what was written '
                              f'(payload {None if pay is None else len(pay)} vs {len(e["payload"])} bytes)', segments=len(e['segs']), n_vrs=e['n_vrs'],
                              encrypted=e['enc'], interleaved=True)
                return
        else:
            res.violation('record-count', f'interleaved readers: reader {w} yields more records than were written', read=counts[w], written=len(exps[w]), interleaved=True)
            return
    try:
        reader_b._exit()
    except Exception as err:
        res.violation('close-exception', f'{type(err).__name__}: {err}', exc=type(err).__name__)


def candidates(scenario):
    if scenario.get('other') is not None:
        sc = {k: v for k, v in scenario.items() if k not in ('other', 'schedule')}
        yield sc
        for tag, m, _ in D.phys_candidates(scenario['other']):
            yield dict(scenario, other=m)
        if any(scenario.get('schedule', [])):
            yield dict(scenario, schedule=[0, 1])
    if scenario.get('passes', 1) > 1:
        yield dict(scenario, passes=1)
    if scenario.get('peeks'):
        yield {k: v for k, v in scenario.items() if k != 'peeks'}
        for key_ in scenario['peeks']:
            if len(scenario['peeks']) > 1:
                yield dict(scenario, peeks={k: v for k, v in scenario['peeks'].items() if k != key_})
    if scenario.get('reenter') is not None:
        yield {k: v for k, v in scenario.items() if k != 'reenter'}
        if scenario['reenter'] != 'same':
            for tag, m, _ in D.phys_candidates(scenario['reenter']):
                yield dict(scenario, reenter=m)
    h = scenario.get('history')
    if h:
        yield {k: v for k, v in scenario.items() if k != 'history'}
        for j in range(len(h['ops'])):
            if len(h['ops']) > 1:
                yield dict(scenario, history=dict(h, ops=h['ops'][:j] + h['ops'][j + 1:]))
        if h.get('lazy'):
            yield dict(scenario, history=dict(h, lazy=False))
    for tag, m, _ in D.phys_candidates(scenario['model']):
        yield dict(scenario, model=m)


def main(argv=None):
    return runner.main(sys.modules[__name__], argv)
