"""C14 - DAT mud-log files parse to their declared channels and values; corruptions are rejected.

Fault enumeration on a stored text: for each seeded DAT model the fault-free parse is compared with
the model, then *every* applicable single-line corruption of *every* line (closed list, each with a
model-derived expected outcome) is applied, one per run of the real parser.
"""
import io
import sys

from sim import runner, seeds
from worlds import dat as D

PROPERTY = 'C14'
LEVEL = 'fault_enumeration'
RUNS = {'quick': 6000, 'thorough': 200000}
RULE = ('scenario = seeded DAT model (declarations in seeded order with spaces/tabs, header UTIM DATE TIME + non-empty subset, 0..30 rows, both date spellings) and '
        'the complete list of single-line corruptions of it: per data line drop a column / add a column / letters in a numeric token / garbage in the UTIM, DATE or '
        'TIME token / a token copied from another column of the same line / '
        'TIME token / change one digit of a float; per header name an undeclared replacement; delete the header; per declaration delete it (used -> error, unused -> '
        'same content); whitespace changes. evaluations counts parses; non-trivial = corrupted parses whose line kind x corruption kind x position class is hit; '
        'distinct = distinct (corruption kind, line position class, outcome, rows class, separator class) tuples. exhaustive per base file over lines x kinds')
REAL = ['TotalDepth.DAT.DAT_parser.parse_file / can_parse_file', 'TotalDepth.common.LogPass.FrameArray / FrameChannel']
STUB = ['file object -> io.StringIO over the generated text, or (30 %) a real io.TextIOWrapper over its bytes in the state a caller left it in (fresh, read, readline, iterated)', 'file writer -> content model worlds/dat.py']
ASSUMPTIONS = [
    'corruptions whose outcome the statement leaves open are not generated (nan, inf, 1_0, out-of-range dates, a header name REPLACED by a repeat of another or repeated in a file without data rows, blank lines); a name INSERTED a second time above unchanged data rows is generated: those rows no longer match the header',
    'a DAT error is an ExceptionDAT subclass raised by parse_file; anything else raised, or a successful parse where an error is expected, is a violation',
    'can_parse_file (which by design reads one data row only) must be false when an error-corruption is at or before the first data line, and true for a healthy file with >= 1 row',
    'years 1951..2050 only (two digit year convention)',
]
PROBES = ['copy_token_error', 'copy_token_changed', 'drop_col_first', 'drop_col_middle', 'drop_col_last', 'add_col', 'letters_in_float', 'bad_utim', 'bad_date', 'bad_time', 'undeclared_header_name',
          'text_beyond_16MiB', 'delete_used_decl', 'delete_unused_decl', 'delete_header', 'repeat_header_name', 'text_file_object_fresh', 'text_file_object_read', 'text_file_object_readline', 'text_file_object_iterated', 'whitespace', 'digit_change', 'zero_rows', 'tab_declarations', 'date_style_A', 'date_style_B',
          'healthy_can_parse']

DAT = None


def setup():
    global DAT
    from TotalDepth.DAT import DAT_parser as _d
    DAT = _d


def enumerate_corruptions(model, rng):
    """The complete list of (kind, target, params, expected) for the model; rng only picks the replacement tokens."""
    out = []
    used = set(model['header'])
    for i, d in enumerate(model['decls']):
        out.append(['delete_decl', ['decl', i], None, 'error' if d['name'] in used else 'same'])
        out.append(['whitespace', ['decl', i], rng.pick(['trail', 'lead']), 'same'])
    for c in range(3, len(model['header'])):
        out.append(['undeclared_header', ['header'], [c, rng.pick(['ZZZ', 'Q9', 'NOPE'])], 'error'])
    out.append(['delete_header', ['header'], None, 'error'])
    if model['rows'] and len(model['header']) > 3:
        # a name typed twice on the header line, the data lines untouched: they no longer match the header (one value short),
        # whether the repeat comes after the original or before it
        src = rng.randrange(3, len(model['header']))
        out.append(['repeat_header_name', ['header'], [len(model['header']), src], 'error'])
        out.append(['repeat_header_name', ['header'], [rng.randrange(3, src + 1), src], 'error'])
    out.append(['whitespace', ['header'], rng.pick(['trail', 'lead', 'double']), 'same'])
    ncol = len(model['header'])
    for r in range(len(model['rows'])):
        out.append(['drop_col', ['row', r], rng.randrange(ncol), 'error'])
        out.append(['add_col', ['row', r], [rng.randrange(ncol + 1), rng.pick(['1.0', '7', '-999.25'])], 'error'])
        if ncol > 3:
            c = rng.randrange(3, ncol)
            out.append(['letters', ['row', r], [c, rng.pick(['12a', 'x', '1.2.3', '--5', 'N/A', '1,5'])], 'error'])
            out.append(['digit', ['row', r], [c], 'changed'])
        out.append(['bad_utim', ['row', r], rng.pick(['12x', '1.5', 'abc', '', '99999999999999999999', '-99999999999999999']), 'error'])
        out.append(['bad_date', ['row', r], rng.pick(['12Xyz20', '2020-10-12', '12Oct', 'Oct20', '32Jan20x', '12345678901Oct20', '12Oct99999999999', '0Oct20', '31Feb20']), 'error'])
        out.append(['bad_time', ['row', r], rng.pick(['13:05:59', '130559', '25-00-00', '13-05', 'ab-cd-ef']), 'error'])
        out.append(['whitespace', ['row', r], rng.pick(['trail', 'lead', 'double']), 'same'])
        # a token copied from another column of the same line (a classic editing slip)
        out.append(['copy_token', ['row', r], [1, 2], 'error'])          # TIME := DATE token
        out.append(['copy_token', ['row', r], [2, 1], 'error'])          # DATE := TIME token
        out.append(['copy_token', ['row', r], [1, 0], 'error'])          # UTIM := DATE token
        if ncol > 3:
            c = rng.randrange(3, ncol)
            out.append(['copy_token', ['row', r], [0, c], 'changed'])    # a float column := the UTIM token (a legal number)
            out.append(['copy_token', ['row', r], [c, 2], 'error'])      # TIME := a float token
            if ncol > 4:
                c2 = rng.choice([x for x in range(3, ncol) if x != c])
                out.append(['copy_token', ['row', r], [c, c2], 'changed'])   # a float column := another float token
    return out


def generate(seed, tier):
    rng = seeds.Rng(seed)
    model = D.gen_model(rng)
    sc = {'world': 'dat', 'model': model, 'corruptions': enumerate_corruptions(model, rng)}
    if model['rows'] and rng.chance(0.004):
        # days of drilling: the data lines of the model repeated until the text is well beyond 16 MiB; one frame per data line
        # still (no corruptions in this scenario: it is about size)
        sc['huge_bytes'] = rng.pick([17_000_000, 18_500_000, 34_000_000])
        sc['corruptions'] = []
    if rng.chance(0.3):
        sc['file_object'] = rng.pick(['fresh', 'read', 'readline', 'iterated'])
    return sc


def apply(model, corr):
    """Returns (text, expected columns or None) after the corruption."""
    import copy
    kind, target, params, expected = corr
    lines = D.lines(model)
    m2 = copy.deepcopy(model)
    idx = next(i for i, (tag, _) in enumerate(lines) if list(tag) == list(target))
    tag, text = lines[idx]
    sep = model.get('row_sep', ' ') if tag[0] == 'row' else model.get('header_sep', ' ')

    def retok(toks):
        return sep.join(toks)
    if kind == 'delete_decl' or kind == 'delete_header':
        del lines[idx]
        if kind == 'delete_decl':
            del m2['decls'][target[1]]
    elif kind == 'whitespace':
        if params == 'trail':
            text = text + '   '
        elif params == 'lead':
            text = '  ' + text if tag[0] != 'decl' else text + ' '
        else:
            toks = text.split()
            text = (sep + ' ').join(toks)
        lines[idx] = (tag, text)
    elif kind == 'undeclared_header':
        toks = text.split()
        toks[params[0]] = params[1]
        lines[idx] = (tag, retok(toks))
    elif kind == 'repeat_header_name':
        toks = text.split()
        toks.insert(params[0], toks[params[1]])
        lines[idx] = (tag, retok(toks))
    else:
        toks = text.split()
        if kind == 'drop_col':
            del toks[params]
            if not toks:
                toks = ['']
        elif kind == 'add_col':
            toks.insert(params[0], params[1])
        elif kind == 'letters':
            toks[params[0]] = params[1]
        elif kind == 'bad_utim':
            toks[0] = params if params else 'x'
        elif kind == 'bad_date':
            toks[1] = params
        elif kind == 'bad_time':
            toks[2] = params
        elif kind == 'copy_token':
            src, dst = params
            toks[dst] = toks[src]
            if dst >= 3:
                m2['rows'][target[1]]['floats'][dst - 3] = toks[src]
        elif kind == 'digit':
            c = params[0]
            old = toks[c]
            pos = next((i for i, ch in enumerate(old) if ch.isdigit()), None)
            new = old[:pos] + str((int(old[pos]) + 1) % 10) + old[pos + 1:]
            toks[c] = new
            m2['rows'][target[1]]['floats'][c - 3] = new
        lines[idx] = (tag, retok(toks))
    return D.text_of(lines, model['trailing_newline']), m2


def compare(res, fa, model, facts, what):
    exp = D.expected(model)
    got_names = [c.ident for c in fa.channels]
    if got_names != [e[0] for e in exp]:
        res.violation('channels', f'{what}: channels {got_names}, header names {[e[0] for e in exp]}', **facts)
        return
    for ch, (name, desc, units, vals) in zip(fa.channels, exp):
        if ch.long_name != desc or ch.units != units:
            res.violation('declaration', f'{what}: channel {name} description/units ({ch.long_name!r}, {ch.units!r}), declared ({desc!r}, {units!r})', **facts)
            return
        if len(ch.array) != len(vals):
            res.violation('row-count', f'{what}: channel {name} has {len(ch.array)} frames, {len(vals)} data lines', **facts)
            return
        for j, v in enumerate(vals):
            g = ch.array[j][0] if getattr(ch.array[j], 'shape', None) else ch.array[j]
            if isinstance(v, float):
                ok = isinstance(g, float) or hasattr(g, 'dtype')
                ok = ok and float(g) == v
            else:
                ok = (g == v) and type(g) is type(v)
            if not ok:
                res.violation('value', f'{what}: channel {name} row {j}: {g!r}, file says {v!r}', column=name if name in ('UTIM', 'DATE', 'TIME') else 'float', **facts)
                return


def text_file(text, flavour):
    """The text file object handed to the parser.  'stringio': io.StringIO.  Otherwise a real text file object
    (io.TextIOWrapper over the encoded bytes, as open() gives) in the state the caller left it in: 'fresh', 'read' (some
    characters read), 'readline' (first line read), 'iterated' (first line taken with next(), as a caller peeking at the file
    does; tell() is then disabled but seek(0) is legal)."""
    if not flavour or flavour == 'stringio':
        return io.StringIO(text)
    f = io.TextIOWrapper(io.BytesIO(text.encode('ascii')), encoding='ascii', newline='')
    if flavour == 'read':
        f.read(7)
    elif flavour == 'readline':
        f.readline()
    elif flavour == 'iterated':
        next(f, None)
    return f


def execute(scenario):
    res = runner.Result()
    model = scenario['model']
    flavour = scenario.get('file_object', 'stringio')
    if flavour != 'stringio':
        res.probe('text_file_object_' + flavour)
    nrows = len(model['rows'])
    if nrows == 0:
        res.probe('zero_rows')
    if any(d.get('sep') == '\t' for d in model['decls']):
        res.probe('tab_declarations')
    res.probe('date_style_' + model['date_style'])
    distinct = set()
    sep_cls = 'tab' if '\t' in model.get('row_sep', ' ') + model.get('header_sep', ' ') else 'space'
    if scenario.get('huge_bytes'):
        res.probe('text_beyond_16MiB')
        lines_ = D.lines(model)
        head_ = [t for tag, t in lines_ if tag[0] != 'row']
        rows_ = [t for tag, t in lines_ if tag[0] == 'row']
        k_ = scenario['huge_bytes'] // max(1, sum(len(t) + 1 for t in rows_)) + 1
        text_ = '\n'.join(head_ + rows_ * k_) + '\n'
        res.op('parse_huge')
        try:
            fa = DAT.parse_file(text_file(text_, flavour))
            got_ = len(fa.x_axis)
            res.ev('huge', len(text_), got_)
            if got_ != len(rows_) * k_:
                res.violation('frame-count', f'a DAT text of {len(text_)} characters with {len(rows_) * k_} data lines parses to {got_} frames', huge=True, rows=min(nrows, 2))
        except Exception as err:
            res.violation('healthy-rejected', f'healthy DAT text of {len(text_)} characters rejected: {type(err).__name__}: {err}', exc=type(err).__name__, corruption='none', rows=min(nrows, 2), huge=True)
        res.notes['evaluations'] = 1
        res.notes['distinct'] = ['huge']
        res.shape = seeds.digest(['huge', len(model['header'])])
        return res
    # ---- fault free
    text = D.text_of(D.lines(model), model['trailing_newline'])
    res.op('parse')
    n_eval = 1
    facts = {'corruption': 'none', 'rows': min(nrows, 2)}
    try:
        fa = DAT.parse_file(text_file(text, flavour))
        compare(res, fa, model, facts, 'healthy file')
    except Exception as err:
        res.violation('healthy-rejected', f'healthy DAT text rejected: {type(err).__name__}: {err}', exc=type(err).__name__, **facts)
    if nrows >= 1:
        res.probe('healthy_can_parse')
        if not DAT.can_parse_file(text_file(text, flavour)):
            res.violation('can-parse-healthy', 'can_parse_file() is false for a healthy file with data rows', **facts)
    res.ev('healthy', nrows, len(model['header']))
    # ---- every single-line corruption
    for k, corr in enumerate(scenario['corruptions']):
        kind, target, params, expected = corr
        if kind == 'repeat_header_name' and not model['rows']:
            continue            # without data rows nothing contradicts the header: left open by the statement
        try:
            text2, m2 = apply(model, corr)
        except StopIteration:
            continue
        res.op('parse_corrupt')
        res.fault(kind)
        n_eval += 1
        pos = 'na'
        if target[0] == 'row':
            pos = 'first' if target[1] == 0 else ('last' if target[1] == nrows - 1 else 'middle')
        facts = {'corruption': kind, 'line': target[0], 'pos': pos, 'rows': min(nrows, 2)}
        try:
            fa = DAT.parse_file(text_file(text2, flavour))
            outcome = 'parsed'
        except DAT.ExceptionDAT as err:
            fa, outcome = None, 'dat-error'
        except Exception as err:
            fa, outcome = None, 'other:' + type(err).__name__
            res.violation('wrong-exception', f'corruption {corr}: {type(err).__name__}: {err} is not a DAT error', exc=type(err).__name__, **facts)
        res.ev(k, kind, target, outcome)
        distinct.add((kind, target[0], pos, outcome, min(nrows, 2), sep_cls))
        # probes
        if kind == 'drop_col':
            res.probe('drop_col_' + pos if pos != 'na' else 'drop_col_first')
        elif kind == 'add_col':
            res.probe('add_col')
        elif kind == 'letters':
            res.probe('letters_in_float')
        elif kind in ('bad_utim', 'bad_date', 'bad_time'):
            res.probe(kind)
        elif kind == 'undeclared_header':
            res.probe('undeclared_header_name')
        elif kind == 'delete_decl':
            res.probe('delete_used_decl' if expected == 'error' else 'delete_unused_decl')
        elif kind == 'delete_header':
            res.probe('delete_header')
        elif kind == 'repeat_header_name':
            res.probe('repeat_header_name')
        elif kind == 'whitespace':
            res.probe('whitespace')
        elif kind == 'digit':
            res.probe('digit_change')
        elif kind == 'copy_token':
            res.probe('copy_token_' + expected)
        if outcome.startswith('other'):
            continue
        if expected == 'error':
            if outcome == 'parsed':
                res.violation('corruption-accepted', f'corruption {corr} of line {target} was parsed instead of rejected ({len(fa.channels)} channels, '
                              f'{len(fa.x_axis)} frames)', **facts)
            at_or_before_first_row = target[0] in ('decl', 'header') or (target[0] == 'row' and target[1] == 0)
            if at_or_before_first_row:
                try:
                    cp = DAT.can_parse_file(text_file(text2, flavour))
                except Exception as err:
                    res.violation('can-parse-raises', f'corruption {corr}: can_parse_file raised {type(err).__name__}: {err}', exc=type(err).__name__, **facts)
                    cp = False
                if cp:
                    res.violation('can-parse-corrupt', f'corruption {corr}: can_parse_file() is true', **facts)
        else:
            if outcome != 'parsed':
                res.violation('harmless-change-rejected', f'corruption {corr} (expected to parse to {"the same" if expected == "same" else "the changed"} content) was rejected', **facts)
            else:
                compare(res, fa, m2, facts, f'after {corr}')
    res.notes['evaluations'] = n_eval
    res.notes['distinct'] = sorted('|'.join(str(x) for x in d) for d in distinct)
    res.shape = seeds.digest([min(nrows, 3), len(model['header']), sep_cls, model['date_style'], sorted(res.notes['distinct'])])
    return res


def evidence_accumulate(acc, r):
    acc.setdefault('distinct', set()).update(r['notes'].get('distinct', []))
    acc['evaluations'] = acc.get('evaluations', 0) + r['notes'].get('evaluations', 0)
    acc['scenarios'] = acc.get('scenarios', 0) + 1


def evidence_extra(acc):
    return {'evaluations': acc.get('evaluations', 0), 'distinct_nontrivial': len(acc.get('distinct', ())), 'scenarios': acc.get('scenarios', 0),
            'exhaustive': True, 'exhaustive_scope': 'for each sampled base file: every line x every applicable corruption kind of the closed list (replacement tokens seeded)'}


def candidates(scenario):
    import copy
    corr = scenario['corruptions']
    model = scenario['model']
    if len(corr) > 1:
        for k in range(len(corr)):
            yield dict(scenario, corruptions=[corr[k]])
    if corr:
        yield dict(scenario, corruptions=[])
    # fewer rows (corruption targets beyond the end are skipped by execute)
    n = len(model['rows'])
    for keep in sorted({0, 1, n // 2, n - 1}):
        if 0 <= keep < n:
            m = copy.deepcopy(model)
            m['rows'] = m['rows'][:keep]
            cs = [c for c in corr if not (c[1][0] == 'row' and c[1][1] >= keep)]
            yield dict(scenario, model=m, corruptions=cs)
    if len(model['header']) > 4:
        m = copy.deepcopy(model)
        m['header'] = m['header'][:-1]
        for r in m['rows']:
            r['floats'] = r['floats'][:-1]
        yield dict(scenario, model=m, corruptions=[c for c in corr if c[0] in ('delete_header', 'bad_utim', 'bad_date', 'bad_time')])
    for key, val in (('header_sep', ' '), ('row_sep', ' '), ('trailing_newline', True)):
        if model.get(key) != val:
            m = copy.deepcopy(model)
            m[key] = val
            yield dict(scenario, model=m)


def main(argv=None):
    return runner.main(sys.modules[__name__], argv)
