"""C05 - LIS physical records: what is written is what is read, at any position.

Three drivers per scenario (DESIGN section 5, C05): (1) the real writer against the independent
producer, (2) a seeded history of read(n) / skip(n) / read-rest / skip-rest / next-record / seek /
rewind / seek-current / tell operations on the real stateful reader against a reference cursor
model with stamped payloads, (3) DeTif.strip_tif against the producer's unmarked encoding.
"""
import sys

from sim import runner, seeds
from sim.simfile import SimFile, EventClock
from worlds import lis_phys as L

PROPERTY = 'C05'
LEVEL = 'exploration'
RUNS = {'quick': 30000, 'thorough': 600000}
RULE = ('scenario = seeded list of logical records, physical record length, trailer options, TIF mode (none/normal/reversed), '
        'greedy or foreign chunking, plus an explicit history of <= 24 reader operations; executed against the real FileWrite, '
        'FileRead (PhysRecRead, TifMarkerRead) and DeTif.strip_tif over SimFile. Non-trivial = at least one reach probe fires '
        '(read ending exactly at a physical-record boundary / at a record boundary, skip across >= 2 physical records, backwards '
        'seek after EOF, seek + partial read + seek to the same place, payload shorter than one PR, PR with 1 byte of payload, '
        'reversed TIF, None at end of record, run-on into next record); distinct = distinct shape hash (operation-kind sequence '
        'with boundary class, TIF mode, trailer combination, chunking class)')
REAL = ['TotalDepth.LIS.core.File.FileWrite / PhysRec.PhysRecWrite / TifMarker.TifMarkerWrite',
        'TotalDepth.LIS.core.File.FileRead / PhysRec.PhysRecRead / TifMarker.TifMarkerRead / RawStream',
        'TotalDepth.DeTif.strip_tif']
STUB = ['file objects -> SimFile (in-memory, access-logged)', 'input files -> independent LIS-79 producer worlds/lis_phys.py']
ASSUMPTIONS = [
    'no text of LIS-79 is available offline: the reference for the VALUE of the checksum trailer is the form that reproduces all 110 checksum trailers of the field file example_data/LIS/data/DILLSON-1_WELL_LOGS_FILE-049.LIS (worlds/lis_phys.lis_checksum; the self-test re-checks that)',
    'record-number trailer values are compared only for "increments by one per physical record"',
    'at the end of a logical record a read may return None (end of record) or run on into the next record; the statement does not '
    'choose, both are accepted and stamped payloads attribute the bytes; size-0 reads/skips are not generated (unattributable)',
    'tellLr()/seekCurrentLrStart() are checked only after data of the current record was delivered or skipToNextLr() landed on it '
    '(after seekLr the documented start-of-record is reset)',
    'reversed TIF files whose first next-word is 0x100 or 0x10000 are excluded (two byte orders indistinguishable)',
    'no stored-byte fault: the statement is about files written conformantly',
]
PROBES = ['path_and_separate_file_id', 'file_object_mode_attribute', 'writer_starts_past_zero', 'checksum_boundary_value', 'two_readers_interleaved', 'record_number_wraps', 'read_ends_at_pr_boundary', 'read_ends_at_record_boundary', 'skip_across_ge2_pr', 'seek_back_after_eof', 'seek_partial_seek_same',
          'payload_lt_one_pr', 'pr_with_1_byte', 'tif_reversed', 'tif_normal', 'none_at_record_end', 'run_on_into_next', 'eof_reached',
          'foreign_chunking', 'written_reread', 'strip_tif', 'seek_cur', 'tell_checked', 'all_trailers']

File = PhysRec = DeTif = None


def setup():
    global File, PhysRec, DeTif
    from TotalDepth.LIS.core import File as _F, PhysRec as _P
    from TotalDepth import DeTif as _D
    File, PhysRec, DeTif = _F, _P, _D


def gen_ops(rng, model):
    recs = model['records']
    n = len(recs)
    mp = L.max_payload(model)
    nops = rng.wpick([(2, rng.randrange(1, 5)), (4, rng.randrange(4, 13)), (2, rng.randrange(10, 25))])
    w = {'read': rng.pick([1, 3, 5]), 'skip': rng.pick([0, 1, 3]), 'read_rest': rng.pick([0, 1, 2]), 'skip_rest': rng.pick([0, 1]),
         'next': rng.pick([0, 1, 2]), 'seek': rng.pick([0, 1, 3]), 'rewind': rng.pick([0, 0, 1]), 'seek_cur': rng.pick([0, 0, 1]),
         'tell': rng.pick([0, 1])}
    kinds = [(v, k) for k, v in sorted(w.items()) if v]
    ops = []
    last_seek = None
    for _ in range(nops):
        kind = rng.wpick(kinds)
        if kind in ('read', 'skip'):
            size = rng.wpick([(3, rng.randrange(1, 8)), (3, mp), (2, max(1, mp + rng.pick([-1, 1]))), (2, rng.randrange(1, 3 * mp + 2)),
                              (1, 2 * mp), (1, rng.randrange(1, 70000))])
            ops.append([kind, size])
        elif kind == 'seek':
            if last_seek is not None and rng.chance(0.3):
                k = last_seek
            else:
                k = rng.randrange(n)
            last_seek = k
            ops.append(['seek', k])
        else:
            ops.append([kind])
    return ops


def generate(seed, tier):
    rng = seeds.Rng(seed)
    model = L.gen_model(rng)
    if model['tif'] == 'none' and rng.chance(0.2):
        sc_prefix = L.gen_model(seeds.Rng(rng.getrandbits(32)), max_records=5)
        sc_prefix['tif'] = 'none'
    else:
        sc_prefix = None
    if model['chk'] and not model['rec'] and rng.chance(0.15):
        L.shape_checksum(model)          # physical records whose checksum is all ones, zero or next to them
    sc = {'world': 'lis_phys', 'model': model, 'ops': gen_ops(rng, model), 'reread_written': rng.chance(0.5)}
    if sc_prefix is not None:
        sc['writer_prefix'] = sc_prefix
    if 'writer_prefix' not in sc and rng.chance(0.06):
        sc['path_label'] = rng.pick(['WELL 7 RUN 2', 'well.lis', 'lis', 'out'])   # files given by path, with an identifier that is not the path
    if rng.chance(0.15):
        sc['mode_attr'] = rng.pick(['rb', 'r', 1, 'rb+'])      # what the file object's mode attribute says (zip members: 'r', gzip: an integer)
    if rng.chance(0.2):
        # a second reader on another file is alive at the same time: [k, -1] = before operation k it reads its next whole record
        other = L.gen_model(seeds.Rng(rng.getrandbits(32)), max_records=6)
        steps = [[k, -1] for k in sorted(rng.randrange(0, len(sc['ops']) + 1) for _ in range(rng.randrange(1, 8)))]
        sc['shadow'] = {'model': other, 'steps': steps}
    return sc


def _tail(model):
    return PhysRec.PhysRecTail(hasRecNum=model['rec'], fileNum=model['file'], hasCheckSum=model['chk'])


def drive_writer(res, model, prefix=None):
    """(1) real writer vs producer (greedy chunking). Returns the written bytes or None."""
    greedy = dict(model, rec_start=0, tif='none' if model['tif'] == 'none' else 'normal',
                  records=[{k: v for k, v in r.items() if k != 'chunks'} for r in model['records']])
    exp, lay = L.build(greedy)
    out = SimFile(b'', EventClock(), writable=True, name='written.lis')
    res.op('write', len(model['records']))
    positions = []
    plen = 0
    try:
        if prefix is not None and greedy['tif'] == 'none':
            # an earlier logical file was written to the same stream by another writer (its own trailer options): this writer
            # starts at the end of it, and everything it reports is a position in the stream
            res.probe('writer_starts_past_zero')
            pexp, play = L.build(dict(prefix, rec_start=0, tif='none', records=[{k: v for k, v in r.items() if k != 'chunks'} for r in prefix['records']]))
            w0 = File.FileWrite(out, 'written.lis', False, False, prefix['prlen'], _tail(prefix))
            for rec in play['records']:
                w0.write(rec['payload'])
            plen = len(out.getvalue())
            if plen != len(pexp):
                res.violation('write-layout', f'first writer on the stream wrote {plen} bytes, the LIS-79 layout has {len(pexp)}', tif='none',
                              rec=prefix['rec'], file=prefix['file'] is not None, chk=prefix['chk'])
                return None, lay
        w = File.FileWrite(out, 'written.lis', False, greedy['tif'] != 'none', model['prlen'], _tail(model))
        for rec in lay['records']:
            positions.append(w.write(rec['payload']))
        w.close()
    except Exception as err:
        res.violation('write-exception', f'{type(err).__name__}: {err}', exc=type(err).__name__, tif=greedy['tif'])
        return None, lay
    whole = out.getvalue()
    got = whole[plen:]
    if plen:
        # positions are positions in the stream: seeking there in the whole file must deliver the record
        try:
            rd = File.FileRead(SimFile(whole, EventClock(), name='written.lis'), 'written.lis', False)
            for k_ in range(len(lay['records']) - 1, -1, -1):
                rd.seekLr(positions[k_])
                if rd.readLrBytes() != lay['records'][k_]['payload']:
                    res.violation('write-positions', f'second writer on the stream (it started at {plen}): write() returned {positions[k_]} for record {k_}; '
                                  f'seeking there does not deliver that record (the layout puts it at {plen + lay["records"][k_]["pos"]})', tif='none', second_writer=True)
                    break
        except Exception as err:
            res.violation('write-positions', f'second writer on the stream (it started at {plen}): positions {positions[:6]} cannot be read back: '
                          f'{type(err).__name__}: {err}', tif='none', second_writer=True)
        positions = [p_ - plen for p_ in positions]
    mask = list(lay['mask']) + [(p_, 2) for p_ in lay['chk_pos']]
    res.ev('written', len(got), seeds.digest(L.masked(got, mask) if len(got) == len(exp) else got))
    want_pos = [r['pos'] for r in lay['records']]
    if positions != want_pos:
        res.violation('write-positions', f'write() returned {positions[:8]}, LIS-79 layout puts the records at {want_pos[:8]}',
                      tif=greedy['tif'])
    if len(got) != len(exp) or L.masked(got, mask) != L.masked(exp, mask):
        k = next((i for i, (a, b) in enumerate(zip(L.masked(got, mask) + b'\x00' * 8, L.masked(exp, mask) + b'\x01' * 8)) if a != b), None)
        res.violation('write-layout', f'written file ({len(got)} bytes) differs from the LIS-79 layout ({len(exp)} bytes) at byte {k}',
                      tif=greedy['tif'], rec=model['rec'], file=model['file'] is not None, chk=model['chk'])
    else:
        if model['rec'] and lay['recnum_pos']:
            nums = [int.from_bytes(got[p:p + 2], 'big') for p in lay['recnum_pos']]
            if any((b - a) & 0xffff != 1 for a, b in zip(nums, nums[1:])):
                res.violation('write-recnum', f'record numbers {nums[:10]} do not increase by one per physical record')
        # the value of the checksum trailer; the record number before it is whatever the writer chose, so the reference is
        # computed over the bytes the writer produced
        for p_ in lay['chk_pos']:
            prh = max(pr['prh'] for r_ in lay['records'] for pr in r_['prs'] if pr['prh'] <= p_)
            want = L.lis_checksum(got[prh:p_])
            have = int.from_bytes(got[p_:p_ + 2], 'big')
            if want in (0, 0xffff):
                res.probe('checksum_boundary_value')
            if have != want:
                res.violation('write-checksum', f'physical record at {prh}: checksum trailer 0x{have:04x}, the checksum of its {p_ - prh} bytes is 0x{want:04x}',
                              swapped=have == ((want & 0xff) << 8 | want >> 8), boundary=want in (0, 0xffff), tif=greedy['tif'])
                break
    return got, lay


def path_round_trip(res, model, lay, written, label):
    """Writer and reader given a PATH and, separately, an identifier for messages (theFileId) that is not the path: the records
    go to, and come from, the file at the path."""
    import os
    import shutil
    from sim import build as simbuild
    res.probe('path_and_separate_file_id')
    res.op('write_path')
    d = os.path.join(simbuild.scratch_root(), f'tdsim-{os.getpid()}', 'c05')
    shutil.rmtree(d, ignore_errors=True)
    os.makedirs(d)
    cwd = os.getcwd()
    os.chdir(d)
    try:
        path = os.path.join(d, 'out', 'well.lis')
        os.makedirs(os.path.dirname(path))
        has_tif = model['tif'] != 'none'
        try:
            w = File.FileWrite(path, label, False, has_tif, model['prlen'], _tail(model))
            for rec in lay['records']:
                w.write(rec['payload'])
            w.close()
        except Exception as err:
            res.violation('write-exception', f'writing to a path with theFileId={label!r}: {type(err).__name__}: {err}', exc=type(err).__name__, tif=model['tif'], on_path=True)
            return
        stray = sorted(n for n in os.listdir(d) if n != 'out')
        got = open(path, 'rb').read() if os.path.exists(path) else None
        mask = list(lay['mask']) + [(p_, 2) for p_ in lay['chk_pos']]
        if got is None or len(got) != len(written) or L.masked(got, mask) != L.masked(written, mask):
            res.violation('write-layout', f'FileWrite(path, theFileId={label!r}): the file at the path holds {None if got is None else len(got)} bytes, the same records '
                          f'written to a file object give {len(written)}; other files created in the working directory: {stray}', tif=model['tif'],
                          rec=model['rec'], file=model['file'] is not None, chk=model['chk'], on_path=True)
            return
        try:
            rd = File.FileRead(path, label, False)
            for i, rec in enumerate(lay['records']):
                if rd.readLrBytes() != rec['payload']:
                    res.violation('reread-mismatch', f'FileRead(path, theFileId={label!r}): record {i} differs from what was written to that path', mode='path')
                    break
        except Exception as err:
            res.violation('reread-exception', f'FileRead(path, theFileId={label!r}): {type(err).__name__}: {err}', exc=type(err).__name__, on_path=True)
    finally:
        os.chdir(cwd)
        shutil.rmtree(d, ignore_errors=True)


def check_reread_written(res, written, lay, positions_ok=True):
    """What was written is what is read: whole-record reads in order, then seek to every record start in reverse."""
    res.probe('written_reread')
    f = SimFile(written, EventClock(), name='written.lis')
    try:
        rd = File.FileRead(f, 'written.lis', False)
        for i, rec in enumerate(lay['records']):
            by = rd.readLrBytes()
            if by != rec['payload']:
                res.violation('reread-mismatch', f'record {i} of the written file reads back as {None if by is None else len(by)} bytes, '
                              f'{len(rec["payload"])} were written', mode='sequential')
                return
        for i in range(len(lay['records']) - 1, -1, -1):
            rd.seekLr(lay['records'][i]['pos'])
            by = rd.readLrBytes()
            if by != lay['records'][i]['payload']:
                res.violation('reread-mismatch', f'record {i} of the written file, after seekLr, reads back wrong', mode='seek')
                return
    except Exception as err:
        res.violation('reread-exception', f'{type(err).__name__}: {err}', exc=type(err).__name__)


def drive_strip(res, model):
    """(3) strip_tif(normal TIF file) == the unmarked file."""
    res.probe('strip_tif')
    res.op('strip_tif')
    tif_bytes, _ = L.build(model, tif='normal')
    plain, _ = L.build(model, tif='none')
    fin = SimFile(tif_bytes, EventClock(), name='in.tif')
    fout = SimFile(b'', EventClock(), writable=True, name='out.lis')
    try:
        n_markers, n_bytes = DeTif.strip_tif(fin, fout)
    except Exception as err:
        res.violation('strip-exception', f'{type(err).__name__}: {err}', exc=type(err).__name__)
        return
    got = fout.getvalue()
    res.ev('strip', n_markers, n_bytes, seeds.digest(got))
    if got != plain:
        res.violation('strip-mismatch', f'strip_tif produced {len(got)} bytes, the unmarked file has {len(plain)} bytes')
    n_prs = sum(len(r['prs']) for r in L.build(model, tif='none')[1]['records'])
    if n_bytes != len(plain):
        res.violation('strip-count', f'strip_tif reports {n_bytes} bytes written, the unmarked file has {len(plain)} bytes')


def execute(scenario):
    res = runner.Result()
    model = scenario['model']
    by, layout = L.build(model)
    tif_ref, recs_ref = L.ref_read(by)
    assert tif_ref == model['tif'] and [r['payload'] for r in recs_ref] == [r['payload'] for r in layout['records']], \
        'producer / reference reader disagree'
    recs = layout['records']
    nrec = len(recs)
    mp = L.max_payload(model)
    # static probes
    if model['tif'] == 'reversed':
        res.probe('tif_reversed')
    if model['tif'] == 'normal':
        res.probe('tif_normal')
    if model['rec'] and model['file'] is not None and model['chk']:
        res.probe('all_trailers')
    if any(r.get('chunks') for r in model['records']):
        res.probe('foreign_chunking')
    if model['rec'] and model.get('rec_start', 0) + sum(len(r['prs']) for r in recs) > 65536:
        res.probe('record_number_wraps')
    for r in recs:
        if len(r['prs']) == 1 and r['prs'][0]['data_len'] < mp:
            res.probe('payload_lt_one_pr')
        if any(p['data_len'] == 1 for p in r['prs']):
            res.probe('pr_with_1_byte')
    # (1) writer
    written, wlay = drive_writer(res, model, scenario.get('writer_prefix'))
    if scenario.get('path_label') and written is not None:
        path_round_trip(res, model, wlay, written, scenario['path_label'])
    if written is not None and scenario.get('reread_written'):
        check_reread_written(res, written, wlay)
    # (3) strip_tif
    if model['tif'] == 'normal':
        drive_strip(res, model)
    # (2) reader history on the producer's bytes
    clock = EventClock()
    f = SimFile(by, clock, name='sim.lis', mode_attr=scenario.get('mode_attr'))
    if scenario.get('mode_attr') is not None:
        res.probe('file_object_mode_attribute')
    op_shapes = []
    try:
        rd = File.FileRead(f, 'sim.lis', False)
    except Exception as err:
        res.violation('open-exception', f'{type(err).__name__}: {err}', exc=type(err).__name__, tif=model['tif'])
        res.shape = seeds.digest(['open-exception'])
        return res
    r, o = 0, 0                 # model cursor: record index, offset in payload
    known_start = False
    was_eof = False
    nones = 0
    last_seek = None            # (k, partial-read-since) for the seek/partial/seek probe
    facts0 = {'tif': model['tif']}

    def pr_boundaries(k):
        acc, out = 0, []
        for p in recs[k]['prs']:
            acc += p['data_len']
            out.append(acc)
        return out

    shadow = None
    if scenario.get('shadow'):
        res.probe('two_readers_interleaved')
        sh_by, sh_layout = L.build(scenario['shadow']['model'])
        try:
            shadow = {'rd': File.FileRead(SimFile(sh_by, clock, name='other.lis'), 'other.lis', False), 'recs': sh_layout['records'], 'r': 0, 'o': 0, 'dead': False}
        except Exception as err:
            res.violation('open-exception', f'second reader: {type(err).__name__}: {err}', exc=type(err).__name__, tif=scenario['shadow']['model']['tif'])
    for idx, op in enumerate(list(scenario['ops']) + [None]):
        if shadow is not None:
            for kk, size in scenario['shadow']['steps']:
                if kk == idx and not shadow['dead']:
                    shadow_step(res, shadow, size, idx)
        if op is None:
            break
        kind = op[0]
        res.op(kind)
        at_eof = r >= nrec
        rem = 0 if at_eof else len(recs[r]['payload']) - o
        facts = dict(facts0, op=kind, at_record_end=(rem == 0 and not at_eof), at_eof=at_eof)
        if kind in ('read', 'skip', 'read_rest', 'skip_rest'):
            size = op[1] if kind in ('read', 'skip') else -1
            reading = kind.startswith('read')
            try:
                val = rd.readLrBytes(size) if reading else rd.skipLrBytes(size)
                exc = None
            except Exception as err:
                val, exc = None, err
            res.ev(kind, idx, size, 'exc:' + type(exc).__name__ if exc else (seeds.digest(val) if reading else val))
            op_shapes.append(kind[0] + kind[-1])
            if exc is not None:
                nxt_exists = (r + 1 < nrec)
                if at_eof or (rem == 0 and not nxt_exists):
                    res.probe('eof_reached')
                    if not isinstance(exc, File.ExceptionFileRead):
                        res.violation('eof-exception-type', f'op {idx} {op}: {type(exc).__name__}: {exc} at EOF', exc=type(exc).__name__, **facts)
                    r, o, known_start, was_eof = nrec, 0, False, True
                else:
                    res.violation('read-exception', f'op {idx} {op}: {type(exc).__name__}: {exc} with record {r} offset {o} of {nrec} records',
                                  exc=type(exc).__name__, **facts)
                    break
                continue
            count = (len(val) if val is not None else None) if reading else val
            empty = (val is None) if reading else (val == 0)
            if at_eof:
                res.probe('eof_reached')
                was_eof = True
                if not empty:
                    res.violation('data-after-eof', f'op {idx} {op}: returned {count} bytes after the last record', **facts)
                    break
                continue
            if rem > 0:
                take = rem if size < 0 else min(size, rem)
                want = recs[r]['payload'][o:o + take]
                if (reading and val != want) or (not reading and val != take):
                    res.violation('read-mismatch' if reading else 'skip-mismatch',
                                  f'op {idx} {op}: at record {r} offset {o} (payload {len(recs[r]["payload"])}, PRs {[p["data_len"] for p in recs[r]["prs"]][:8]}) '
                                  f'expected {take} bytes, got {count}' + ('' if not reading or val is None else f', first difference at {_fd(val, want)}'),
                                  crosses_pr=_crosses(pr_boundaries(r), o, o + take), **facts)
                    break
                # probes
                b = pr_boundaries(r)
                if o + take in b[:-1]:
                    res.probe('read_ends_at_pr_boundary')
                if o + take == b[-1]:
                    res.probe('read_ends_at_record_boundary')
                if not reading and _crosses(b, o, o + take) >= 2:
                    res.probe('skip_across_ge2_pr')
                if last_seek is not None and o == 0 and take < len(recs[r]['payload']):
                    last_seek = (last_seek[0], True)
                o += take
                known_start = True
                nones = 0
                continue
            # rem == 0: end of record r
            if empty:
                nones += 1
                res.probe('none_at_record_end')
                if r + 1 >= nrec:
                    res.probe('eof_reached')
                elif nones >= 3:
                    res.violation('stuck-at-record-end', f'op {idx} {op}: third empty result in a row at the end of record {r}', **facts)
                    break
                continue
            # data: must come from record r+1
            if r + 1 >= nrec:
                res.violation('data-after-eof', f'op {idx} {op}: returned {count} bytes after the last record', **facts)
                break
            nxt = recs[r + 1]['payload']
            take = len(nxt) if size < 0 else min(size, len(nxt))
            want = nxt[:take]
            if (reading and val != want) or (not reading and val != take):
                res.violation('read-mismatch' if reading else 'skip-mismatch',
                              f'op {idx} {op}: at the end of record {r}; expected None or the first {take} bytes of record {r + 1}, got {count}',
                              crosses_pr=_crosses(pr_boundaries(r + 1), 0, take), **facts)
                break
            res.probe('run_on_into_next')
            r, o, known_start, nones = r + 1, take, True, 0
            continue
        if kind == 'next':
            try:
                c = rd.skipToNextLr()
                exc = None
            except Exception as err:
                c, exc = None, err
            res.ev('next', idx, 'exc:' + type(exc).__name__ if exc else c)
            op_shapes.append('nx')
            if exc is not None:
                if at_eof or was_eof or (rem == 0 and r + 1 >= nrec):
                    res.probe('eof_reached')
                    if not isinstance(exc, File.ExceptionFileRead):
                        res.violation('eof-exception-type', f'op {idx} {op}: {type(exc).__name__}: {exc} at EOF', exc=type(exc).__name__, **facts)
                    r, o, known_start, was_eof = nrec, 0, False, True
                    continue
                res.violation('next-exception', f'op {idx}: skipToNextLr raised {type(exc).__name__}: {exc} at record {r} offset {o} of {nrec}',
                              exc=type(exc).__name__, **facts)
                break
            if at_eof:
                if c:
                    res.violation('data-after-eof', f'op {idx}: skipToNextLr skipped {c} bytes after the last record', **facts)
                    break
                continue
            if rem > 0:
                if c != rem:
                    res.violation('next-count', f'op {idx}: skipToNextLr skipped {c} bytes, {rem} remained in record {r}', **facts)
                    break
                r, o = r + 1, 0
            else:
                if c == 0:
                    r, o = r + 1, 0
                elif r + 1 < nrec and c == len(recs[r + 1]['payload']):
                    res.probe('run_on_into_next')
                    r, o = r + 2, 0
                else:
                    res.violation('next-count', f'op {idx}: skipToNextLr at the end of record {r} skipped {c} bytes', **facts)
                    break
            nones = 0
            if r < nrec:
                known_start = True
                t = rd.tellLr()
                if t != recs[r]['pos']:
                    res.violation('tell-mismatch', f'op {idx}: after skipToNextLr tellLr() = {t}, record {r} starts at {recs[r]["pos"]}', after='next', **facts)
                    break
            else:
                known_start = False
                was_eof = True
                res.probe('eof_reached')
            continue
        if kind in ('seek', 'rewind'):
            k = op[1] % nrec if kind == 'seek' else 0
            try:
                t = rd.seekLr(recs[k]['pos']) if kind == 'seek' else rd.rewind()
            except Exception as err:
                res.violation('seek-exception', f'op {idx} {op}: {type(err).__name__}: {err}', exc=type(err).__name__, **facts)
                break
            res.ev(kind, idx, k, t)
            op_shapes.append('sk')
            if t != recs[k]['pos']:
                res.violation('seek-return', f'op {idx} {op}: seek returned {t}, wanted {recs[k]["pos"]}', **facts)
            if was_eof and k < nrec - 1:
                res.probe('seek_back_after_eof')
            if last_seek is not None and last_seek[0] == k and last_seek[1]:
                res.probe('seek_partial_seek_same')
            last_seek = (k, False)
            r, o, known_start, was_eof, nones = k, 0, False, False, 0
            continue
        if kind == 'seek_cur':
            if not known_start or at_eof:
                op_shapes.append('--')
                continue
            res.probe('seek_cur')
            try:
                t = rd.seekCurrentLrStart()
            except Exception as err:
                res.violation('seek-exception', f'op {idx} {op}: {type(err).__name__}: {err}', exc=type(err).__name__, **facts)
                break
            res.ev('seek_cur', idx, t)
            op_shapes.append('sc')
            if t != recs[r]['pos']:
                res.violation('seek-return', f'op {idx}: seekCurrentLrStart went to {t}, record {r} starts at {recs[r]["pos"]}', **facts)
                break
            o, known_start, nones = 0, False, 0
            continue
        if kind == 'tell':
            if not known_start or at_eof:
                op_shapes.append('--')
                continue
            res.probe('tell_checked')
            t = rd.tellLr()
            res.ev('tell', idx, t)
            op_shapes.append('tl')
            if t != recs[r]['pos']:
                res.violation('tell-mismatch', f'op {idx}: tellLr() = {t}, record {r} starts at {recs[r]["pos"]}', after='data', **facts)
                break
            continue
        raise ValueError(f'unknown op {op}')
    res.events.extend(f.log)
    chunk_cls = 'foreign' if any(r.get('chunks') for r in model['records']) else 'greedy'
    res.shape = seeds.digest([op_shapes, model['tif'], model['rec'], model['file'] is not None, model['chk'], chunk_cls,
                              [min(len(r['prs']), 3) for r in recs]])
    return res


def shadow_step(res, sh, size, idx):
    """The second reader (its own file) reads its next whole record, as check_reread_written does; what it returns is held to
    what was written to that file."""
    res.op('shadow_read')
    recs = sh['recs']
    if sh['r'] >= len(recs):
        return
    want = recs[sh['r']]['payload']
    try:
        got = sh['rd'].readLrBytes()
    except Exception as err:
        res.violation('read-exception', f'before op {idx}: second reader (alive at the same time) raised {type(err).__name__}: {err} at record {sh["r"]}',
                      exc=type(err).__name__, second_reader=True)
        sh['dead'] = True
        return
    res.ev('shadow', idx, sh['r'], seeds.digest(got))
    if got != want:
        res.violation('read-mismatch', f'before op {idx}: second reader (alive at the same time) record {sh["r"]}: '
                      f'{None if got is None else len(got)} bytes returned, {len(want)} written', second_reader=True)
        sh['dead'] = True
        return
    sh['r'] += 1


def _crosses(bounds, a, b):
    return sum(1 for x in bounds[:-1] if a < x < b)


def _fd(a, b):
    for k, (x, y) in enumerate(zip(a, b)):
        if x != y:
            return k
    return min(len(a), len(b))


def candidates(scenario):
    if scenario.get('writer_prefix'):
        yield {k: v for k, v in scenario.items() if k != 'writer_prefix'}
    if scenario.get('shadow'):
        yield {k: v for k, v in scenario.items() if k != 'shadow'}
        st = scenario['shadow']['steps']
        for j in range(len(st)):
            if len(st) > 1:
                yield dict(scenario, shadow=dict(scenario['shadow'], steps=st[:j] + st[j + 1:]))
    import copy
    ops = scenario['ops']
    model = scenario['model']
    for k in range(len(ops) - 1, -1, -1):
        yield dict(scenario, ops=ops[:k] + ops[k + 1:])
    if scenario.get('reread_written'):
        yield dict(scenario, reread_written=False)
    n = len(model['records'])
    if n > 1:
        for d in range(n - 1, -1, -1):
            m = copy.deepcopy(model)
            del m['records'][d]
            L.fix_reversed(m)
            new_ops = []
            for op in ops:
                if op[0] == 'seek':
                    k = op[1] % n
                    if k == d:
                        continue
                    op = ['seek', k - 1 if k > d else k]
                new_ops.append(op)
            yield dict(scenario, model=m, ops=new_ops)
    for k, rec in enumerate(model['records']):
        if rec.get('chunks'):
            m = copy.deepcopy(model)
            del m['records'][k]['chunks']
            L.fix_reversed(m)
            yield dict(scenario, model=m)
        if rec['len'] > 2:
            for new_len in (2, rec['len'] // 2, rec['len'] - 1):
                if 2 <= new_len < rec['len']:
                    m = copy.deepcopy(model)
                    m['records'][k]['len'] = new_len
                    m['records'][k].pop('chunks', None)
                    L.fix_reversed(m)
                    yield dict(scenario, model=m)
    for key, val in (('tif', 'none'), ('tif', 'normal'), ('rec', False), ('file', None), ('chk', False)):
        if model[key] != val:
            m = copy.deepcopy(model)
            m[key] = val
            for rec in m['records']:
                rec.pop('chunks', None)
            L.fix_reversed(m)
            if L.max_payload(m) >= 1:
                yield dict(scenario, model=m)
    for k, op in enumerate(ops):
        if op[0] in ('read', 'skip') and op[1] > 1:
            for s in (1, op[1] // 2, op[1] - 1):
                if 1 <= s < op[1]:
                    yield dict(scenario, ops=ops[:k] + [[op[0], s]] + ops[k + 1:])


def main(argv=None):
    return runner.main(sys.modules[__name__], argv)
