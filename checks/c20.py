"""C20 - file type identification recognises every supported format and never crashes.

Fault enumeration: for a seeded healthy base file of every format and layout family the real
``bin_file_type.binary_file_type`` is run on the file and on every member of an enumerated set of
stored-byte faults of it (truncation at every structural boundary and boundary +-1, single-bit
flips over the first 512 bytes and at every length/type field, plus seeded other fault kinds and
pure random byte strings), under a deterministic step budget, through a SimFile whose cursor and
content are checked afterwards.
"""
import os
import sys

from sim import runner, seeds, damage, build as simbuild
from sim.budget import StepBudget, BudgetExceeded
from sim.simfile import SimFile, EventClock
from worlds import batch

PROPERTY = 'C20'
LEVEL = 'fault_enumeration'
RUNS = {'quick': 1800, 'thorough': 40000}
RULE = ('scenario = one seeded healthy base file (RP66V1 logical / RP66V1 physical-only; LIS plain / TIF / TIF-reversed starting with reel, tape or '
        'file header; LAS 1.2 / 2.0; BIT; DAT) or a random byte string, plus an explicit list of fault sets applied one at a time: truncation at every '
        'structural boundary and +-1 (capped, seeded subset beyond the cap), bit flips in the first 512 bytes and at length/type fields, seeded '
        'zero/overwrite/dup/swap/append/empty/foreign faults; every member is identified by the real binary_file_type under a step budget of 2e5+400*len. '
        'evaluations counts identifications; non-trivial = the fault changed the bytes read or a reach probe fired (each code returned for a healthy file, '
        'foreign detectors answered, LIS probe entered on non-LIS bytes, DAT probe entered on ASCII bytes, >10% of the budget used); distinct = '
        'distinct (format family, fault kind, position class, returned code) tuples')
REAL = ['TotalDepth.util.bin_file_type.binary_file_type / binary_file_type_from_path and every probe below it (LIS File/FileIndexer, DAT_parser, ReadBIT, SEGY, LAS sniffers)']
STUB = ['file object -> SimFile (cursor and content checked after the call); a real scratch file for binary_file_type_from_path',
        'input files -> independent producers + sim/damage.py']
ASSUMPTIONS = [
    'simulated machine: every process that runs library code has a 4 GiB address space (sim/runner.py MEMORY_LIMIT_BYTES); a request for more fails at once with MemoryError',
    'nothing is demanded about which code a damaged file gets, only: a documented code or the empty string, no exception, within the step budget, file readable from the start afterwards',
    'TIF-marked LIS files whose first physical record is exactly 276 bytes are excluded from the healthy expectation (they share the BIT signature, as the property says)',
    'step budget counts Python-level events (PY_START + JUMP); a hang inside a C extension would surface as a wall-clock harness error',
    'files up to ~40 kB (big DAT preambles, LIS files of several hundred physical records)',
]
PROBES = ['same_object_reused', 'healthy_lis_several_MB', 'healthy_lis_padded_tif_blocks', 'healthy_lis_tape_marks_between_files', 'path_and_object_compared', 'healthy_big_dat', 'healthy_lis_gt100_prs', 'healthy_RP66V1', 'healthy_LIS', 'healthy_LISt', 'healthy_LIStr', 'healthy_LAS1.2', 'healthy_LAS2.0', 'healthy_BIT', 'healthy_DAT',
          'foreign_detected', 'lis_probe_on_non_lis', 'dat_probe_on_ascii', 'budget_gt_10pct', 'from_path', 'random_bytes', 'damaged_still_identified',
          'damaged_unidentified']
EXPECTED = {'dlis': 'RP66V1', 'dlis_phys': 'RP66V1', 'bit': 'BIT', 'dat': 'DAT'}
FAMILIES = ['dlis', 'dlis_phys', 'lis', 'lis', 'las', 'bit', 'dat', 'random', 'foreign']

#: processor time one identification may use (the unchanged library needs milliseconds): bounds loops inside C code
CPU_QUOTA_S = 5.0

bft = None


def setup():
    global bft
    from TotalDepth.util import bin_file_type as _b
    bft = _b
    from worlds import dlis_logical, lis_logical  # noqa


def base_bytes(gen):
    if gen['world'] == 'random':
        return seeds.Rng(seeds.derive('random-bytes', gen['seed'])).rbytes(gen['size']), [], {}
    by, fields, info = batch.file_content(gen)
    return by, fields, info


def expected_code(gen, by, info):
    w = gen['world']
    if w in EXPECTED:
        return EXPECTED[w]
    if w == 'las':
        return 'LAS' + info['model']['version']
    if w == 'lis':
        tif = info['layout']['tif']
        if tif != 'none':
            first = info['layout']['records'][0]['prs'][0]['len']
            if first == 276:
                return None
        return {'none': 'LIS', 'normal': 'LISt', 'reversed': 'LIStr'}[tif]
    return None


def generate(seed, tier):
    rng = seeds.Rng(seed)
    fam = rng.pick(FAMILIES)
    gen = {'world': fam, 'seed': rng.getrandbits(32)}
    if fam in ('dlis', 'lis', 'bit'):
        gen['frames'] = rng.pick([2, 6, 20])
    if fam == 'lis' and rng.chance(0.45):
        gen['small_pr'] = True           # > 100 physical records: the answer must not depend on size
        gen['frames'] = rng.pick([40, 120])
    if fam == 'lis' and rng.chance(0.1):
        gen['same_file_passes'] = True   # a logical file with two format specifications, each followed by its data records
    if fam == 'lis' and rng.chance(0.12):
        gen['tape_marks'] = True         # TIF-marked image of a tape with several logical files: a single tape mark behind each
    if fam == 'lis' and rng.chance(0.15):
        gen['tif_pad'] = True            # TIF-marked tape image whose blocks are padded to a minimum size or an alignment
    if fam == 'lis' and rng.chance(0.03):
        gen.pop('small_pr', None)
        gen['huge'] = True               # several MB, more than a hundred maximal physical records: the answer must not depend on size
        gen['frames'] = 6
    if fam == 'dat' and rng.chance(0.3):
        gen['big'] = True                # declarations + header + first row of several kB
    if fam == 'foreign':
        # files of other kinds found in log directories (SEG-Y, PDF, ZIP, XML, ...): no expected code, but every probe that
        # recognises them must survive their damaged versions too
        from worlds import foreign
        gen['kind'] = rng.pick(foreign.KINDS + ['segy', 'segy'])
        gen['size'] = rng.randrange(0, 3000)
    if fam == 'random':
        gen['size'] = rng.wpick([(1, 0), (2, rng.randrange(1, 13)), (3, rng.randrange(12, 400)), (2, rng.randrange(400, 4097))])
    by, fields, info = base_bytes(gen)
    n = len(by)
    fault_sets = [[]]
    text_fields = []
    if gen.get('huge'):
        # few identifications of a big file, all of them through a path and through a file object
        fault_sets += [[['truncate', rng.randrange(n // 2, n)]], [['truncate', n - rng.randrange(1, 3000)]], [['bitflip', rng.randrange(n), rng.randrange(8)]]]
        return {'world': 'typing', 'gen': gen, 'fault_sets': fault_sets, 'from_path_every': 1, 'reuse_object': False, 'both_routes': True}
    if fam in ('las', 'dat') and n:
        text_fields = [f for f in fields if f[2].startswith(fam + '.')]
        fields = [f for f in fields if f not in text_fields]
        fields = list(fields) + text_fields
    if fam != 'random' and n:
        if fam == 'foreign' and not fields:
            fields = [(k, 3, 'card') for k in range(0, min(n, 3200), 80)] if gen['kind'] == 'segy' else [(0, 8, 'magic')]
        # --- enumerated: truncation at structural boundaries and +-1
        cuts = set()
        for pos, ln, _ in fields:
            for p in (pos, pos + ln):
                for d in (-1, 0, 1):
                    if 0 <= p + d < n:
                        cuts.add(p + d)
        cuts.update([0, 1, 11, 12, 13, 79, 80, 81, n - 1])
        cuts = sorted(c for c in cuts if 0 <= c < n)
        if len(cuts) > 60:
            keep = set(cuts[:30])
            keep.update(rng.sample(cuts[30:], 30))
            cuts = sorted(keep)
        for c in cuts:
            fault_sets.append([['truncate', c]])
        for _ in range(6):
            fault_sets.append([['truncate', rng.randrange(n)]])
        # --- enumerated: bit flips in the first 512 bytes (seeded subset of the 4096) and at every length/type field
        flips = set()
        for _ in range(40):
            flips.add((rng.randrange(min(n, 512)), rng.randrange(8)))
        for pos, ln, name in fields[:40]:
            for k in range(min(ln, 4)):
                flips.add((pos + k, rng.randrange(8)))
        for p, b in sorted(flips)[:90]:
            fault_sets.append([['bitflip', p, b]])
        # --- enumerated for text formats: one character of a key token replaced by another legal-looking character
        subs = []
        for pos, ln, _ in text_fields:
            for k in range(min(ln, 12)):
                for ch in b'.:~# -09A\t':
                    if by[pos + k] != ch:
                        subs.append(['overwrite', pos + k, bytes([ch]).hex()])
        if len(subs) > 70:
            subs = rng.sample(subs, 70)
        for f in subs:
            fault_sets.append([f])
        # --- enumerated for text formats: a key token written with far more characters than usual (a version printed with thirty
        # decimals, a very long section name), alone, then cut off right behind it, then with the separator that follows it gone
        for pos, ln, _ in text_fields:
            total = rng.pick([26, 32, 40, 64, 200])
            st = ['stretch', pos, ln, total]
            fault_sets.append([st])
            fault_sets.append([st, ['truncate', pos + total]])
            eol = by.find(b'\n', pos + ln)
            sep = by.find(b':', pos + ln, eol if eol >= 0 else n)
            if sep >= 0:
                fault_sets.append([st, ['overwrite', sep + total - ln, '20']])
        # --- seeded: a record ending at a stored value inside it, a stored value replaced by a boundary value
        if any(f[2].startswith('val') for f in fields):
            for _ in range(10):
                fault_sets.append([damage.gen_fault(rng, n, fields, kinds=['shorten_record'])])
            for _ in range(6):
                fault_sets.append([damage.gen_fault(rng, n, fields, kinds=['value_damage'])])
        if any(f[2] in ('pr.len', 'seg.len', 'vr.len') for f in fields):
            for _ in range(6):
                fault_sets.append([damage.gen_fault(rng, n, fields, kinds=['length_damage'])])
        # --- seeded other kinds, sometimes two at once
        for _ in range(24):
            fs = [damage.gen_fault(rng, n, fields, kinds=['zero_block', 'overwrite', 'dup_block', 'swap_blocks', 'append', 'empty', 'foreign', 'header_damage', 'value_damage', 'shorten_record', 'shorten_record'])]
            if rng.chance(0.2):
                fs.append(damage.gen_fault(rng, n, fields, kinds=['truncate', 'bitflip', 'zero_block']))
            fault_sets.append(fs)
    return {'world': 'typing', 'gen': gen, 'fault_sets': fault_sets, 'from_path_every': rng.pick([7, 13, 29]),
            'reuse_object': rng.chance(0.5)}


def pos_class(fs, n):
    if not fs:
        return 'none'
    f = fs[0]
    if f[0] in ('empty', 'foreign', 'append'):
        return f[0]
    p = f[1] if len(f) > 1 and isinstance(f[1], int) else 0
    if p < 12:
        return 'first12'
    if p < 128:
        return 'header'
    if p < n // 2:
        return 'front'
    return 'back'


def identify(by, budget, via_path=None, shared=None):
    """Returns (outcome, detail, steps, post). outcome: 'ok' | 'exc' | 'budget'.
    shared: a SimFile object that is re-used from one identification to the next with new content."""
    if via_path:
        with open(via_path, 'wb') as f:
            f.write(by)
        try:
            with StepBudget(budget, cpu_s=CPU_QUOTA_S + 4e-6 * len(by)) as sb:
                r = bft.binary_file_type_from_path(via_path)
            return 'ok', r, sb.count, None
        except BudgetExceeded:
            return 'budget', '', sb.count, None
        except BaseException as err:
            return 'exc', err, sb.count, None
    if shared is not None:
        f = shared
        f.set_content(by)
    else:
        f = SimFile(by, EventClock(), name='x', log=False)
    sb = StepBudget(budget, cpu_s=CPU_QUOTA_S + 4e-6 * len(by))
    try:
        with sb:
            r = bft.binary_file_type(f)
        out = ('ok', r)
    except BudgetExceeded:
        out = ('budget', '')
    except BaseException as err:
        out = ('exc', err)
    post = None
    if out[0] == 'ok':
        post = (f.tell(), f.read() == by)
    return out[0], out[1], sb.count, post


def execute(scenario):
    res = runner.Result()
    gen = scenario['gen']
    by, fields, info = base_bytes(gen)
    fam = gen['world']
    want = expected_code(gen, by, info)
    allowed = set(bft.BINARY_FILE_TYPES_SUPPORTED) | {''}
    scratch = os.path.join(simbuild.scratch_root(), f'tdsim-{os.getpid()}')
    os.makedirs(scratch, exist_ok=True)
    distinct = set()
    n_eval = 0
    n_nontrivial = 0
    shared = SimFile(b'', EventClock(), name='x', log=False) if scenario.get('reuse_object') else None
    fault_list = list(scenario['fault_sets'])
    if shared is not None and len(fault_list) > 2:
        # the healthy bytes again, through the same (re-used) file object, in the middle and at the end of the history
        fault_list = fault_list[:len(fault_list) // 2] + [[]] + fault_list[len(fault_list) // 2:] + [[]]
        res.probe('same_object_reused')
    first_answer = {}
    max_frac = 0.0
    try:
        for k, fs in enumerate(fault_list):
            data = damage.apply_all(by, fs) if fs else by
            fired = data != by
            for f in fs:
                res.fault(f[0]) if fired else None
            budget = 200_000 + 400 * len(data)
            via = os.path.join(scratch, 'f.bin') if (k % scenario.get('from_path_every', 13) == 0) else None
            outcome, detail, steps, post = identify(data, budget, via, shared)
            n_eval += 1
            if via and scenario.get('both_routes') and outcome == 'ok':
                o2, d2, _, post = identify(data, budget, None, None)
                n_eval += 1
                res.probe('path_and_object_compared')
                if o2 == 'ok' and d2 != detail:
                    res.violation('identify-route', f'fault set {k} {fs} on a {fam} file of {len(data)} bytes: through its path the file is identified as {detail!r}, '
                                  f'through an open file object as {d2!r}', by_path=detail, by_object=d2, family=fam, fault=fs[0][0] if fs else 'healthy')
            res.op('identify_path' if via else 'identify')
            if via:
                res.probe('from_path')
            kind = fs[0][0] if fs else 'healthy'
            facts = {'family': fam, 'fault': kind, 'pos_class': pos_class(fs, len(by)), 'via_path': bool(via)}
            res.ev(k, kind, outcome, detail if outcome == 'ok' else (type(detail).__name__ if outcome == 'exc' else ''), steps)
            if outcome == 'exc':
                import traceback
                tb = ''.join(traceback.format_exception(type(detail), detail, detail.__traceback__))
                where = batch._where(tb)
                res.probe('exception_class_seen')
                res.violation('identify-raises', f'fault set {k} {fs} on a {fam} file of {len(by)} bytes: {type(detail).__name__}: {detail} at {where}',
                              exc=type(detail).__name__, where=where, **facts)
                continue
            if outcome == 'budget':
                res.violation('identify-no-progress', f'fault set {k} {fs} on a {fam} file of {len(by)} bytes: more than {budget} steps or {CPU_QUOTA_S}s of processor time', **facts)
                continue
            max_frac = max(max_frac, steps / budget)
            if steps > budget // 10:
                res.probe('budget_gt_10pct')
            code = detail
            if not isinstance(code, str) or code not in allowed:
                res.violation('identify-code', f'fault set {k} {fs}: returned {code!r}, not a documented code', **facts)
                continue
            if post is not None and (post[0] != 0 or not post[1]):
                res.violation('identify-file-state', f'fault set {k} {fs}: after identification tell()={post[0]}, read() returns the content: {post[1]}', code=code, **facts)
            # the answer is a function of the bytes: not of what the same file object held before
            key_ = seeds.digest(data)
            if key_ in first_answer and first_answer[key_] != code:
                res.violation('identify-depends-on-history', f'fault set {k} {fs}: the same {len(data)} bytes were identified as {first_answer[key_]!r} earlier '
                              f'and as {code!r} now (same file object re-used with other content in between: {shared is not None})', first=first_answer[key_], now=code, **facts)
            first_answer.setdefault(key_, code)
            if shared is not None and not via and k % 9 == 4:
                o2, d2, _, _ = identify(data, budget, None, None)
                n_eval += 1
                if o2 == 'ok' and d2 != code:
                    res.violation('identify-depends-on-history', f'fault set {k} {fs}: a fresh file object with the same bytes is identified as {d2!r}, the re-used object as {code!r}',
                                  first=d2, now=code, **facts)
            if not fs:
                if fam == 'random':
                    res.probe('random_bytes')
                elif want is not None:
                    if code != want:
                        extra = {'dat_rows': min(len(info['model']['rows']), 2)} if fam == 'dat' else {}
                        res.violation('healthy-misidentified', f'healthy {fam} file ({len(by)} bytes, gen {gen}) identified as {code!r}, expected {want!r}',
                                      expected=want, got=code, **extra, **facts)
                    else:
                        res.probe('healthy_' + want)
                        if gen.get('big'):
                            res.probe('healthy_big_dat')
                        if fam == 'lis' and sum(len(r_['prs']) for r_ in info['layout']['records']) > 100:
                            res.probe('healthy_lis_gt100_prs')
                        if gen.get('huge'):
                            res.probe('healthy_lis_several_MB')
                        if fam == 'lis' and info['model']['phys'].get('tape_marks'):
                            res.probe('healthy_lis_tape_marks_between_files')
                        if fam == 'lis' and info['model']['phys'].get('tif_pad'):
                            res.probe('healthy_lis_padded_tif_blocks')
            else:
                if fired:
                    n_nontrivial += 1
                    res.probe('damaged_still_identified' if (want and code == want) else 'damaged_unidentified')
                if kind == 'foreign' and code in ('PDF', 'ZIP', 'XML', 'SEGY', 'ASCII', 'TIFF', 'PS'):
                    res.probe('foreign_detected')
            if fam not in ('lis',) and code in ('LIS', 'LISt', 'LIStr', ''):
                res.probe('lis_probe_on_non_lis')
            if code in ('ASCII', 'DAT') and fam not in ('dat',):
                res.probe('dat_probe_on_ascii')
            distinct.add((fam, kind, pos_class(fs, len(by)), code))
    finally:
        import shutil
        shutil.rmtree(scratch, ignore_errors=True)
    res.notes['evaluations'] = n_eval
    res.notes['max_budget_fraction'] = round(max_frac, 4)
    res.notes['nontrivial'] = n_nontrivial
    res.notes['distinct'] = sorted('|'.join(d) for d in distinct)
    res.shape = seeds.digest([fam, sorted(res.notes['distinct'])])
    return res


def evidence_accumulate(acc, r):
    n = r['notes']
    acc.setdefault('distinct', set()).update(n.get('distinct', []))
    acc['evaluations'] = acc.get('evaluations', 0) + n.get('evaluations', 0)
    acc['nontrivial'] = acc.get('nontrivial', 0) + n.get('nontrivial', 0)
    acc['scenarios'] = acc.get('scenarios', 0) + 1
    acc['max_frac'] = max(acc.get('max_frac', 0.0), n.get('max_budget_fraction', 0.0))


def evidence_extra(acc):
    return {'evaluations': acc.get('evaluations', 0), 'distinct_nontrivial': len(acc.get('distinct', ())), 'scenarios': acc.get('scenarios', 0),
            'max_fraction_of_step_budget_used': acc.get('max_frac', 0.0),
            'identifications_on_changed_bytes': acc.get('nontrivial', 0),
            'exhaustive': False,
            'enumeration': 'per base file: every structural boundary and +-1 for truncation (all of them up to 60, then the first 30 and a seeded 30 of the rest); '
                           'bit flips: seeded 40 of the first 512 bytes x 8 bits plus the first 4 bytes of the first 40 structural fields; for text formats every '
                           'byte of the key tokens x 10 substitute characters (seeded 70 beyond that)'}


def candidates(scenario):
    fss = scenario['fault_sets']
    # keep only one fault set at a time first (drastic), then drop one by one
    if len(fss) > 1:
        for k in range(len(fss)):
            yield dict(scenario, fault_sets=[fss[k]])
    for k, fs in enumerate(fss):
        if len(fs) > 1:
            for j in range(len(fs)):
                yield dict(scenario, fault_sets=fss[:k] + [fs[:j] + fs[j + 1:]] + fss[k + 1:])
    g = scenario['gen']
    if g.get('frames', 0) > 2:
        yield dict(scenario, gen=dict(g, frames=2))
    if scenario.get('from_path_every') != 10 ** 6:
        yield dict(scenario, from_path_every=10 ** 6)


def main(argv=None):
    return runner.main(sys.modules[__name__], argv)
