#!/bin/bash
# run the thorough tier of every check (no evidence written; used through `vp run`), report exit codes and findings;
# exit status: 0 when every check exited 0, else 1
overall=0
for c in ${@:-C12 C20 C11 C06 C04 C02 C05 C01 C14}; do
  out=$(./check $c --tier thorough --no-evidence 2>&1); rc=$?
  echo "$c exit=$rc $(echo "$out" | tail -1 | cut -c1-200)"
  if [ $rc -ne 0 ]; then overall=1; echo "$out" | grep -E "class=|^VIOLATION|HARNESS|^    " | head -12 | cut -c1-600; fi
done
exit $overall
