#!/bin/bash
# run the thorough tier of every check (no evidence written; used through `vp run`), report exit codes and findings
for c in ${@:-C12 C20 C11 C06 C04 C02 C05 C01 C14}; do
  out=$(./check $c --tier thorough --no-evidence 2>&1); rc=$?
  echo "$c exit=$rc $(echo "$out" | tail -1 | cut -c1-200)"
  [ $rc -ne 0 ] && echo "$out" | grep -E "class=|^VIOLATION|HARNESS|^    " | head -12 | cut -c1-600
done
