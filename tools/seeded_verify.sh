#!/bin/bash
# tools/seeded_verify.sh <worktree>: confirm a sub-agent's seeded change: demo fails with it, passes without it, test suite passes with it.
wt="$1"
cd "$wt" || exit 2
git diff --quiet -- src && { echo "no change applied in $wt"; exit 2; }
PYTHONPATH=$wt/src timeout 300 /venv/bin/python _seeded/demo.py > /tmp/sv_with.txt 2>&1; with=$?
git diff -- src > /tmp/sv_patch.diff; git apply -R /tmp/sv_patch.diff
PYTHONPATH=$wt/src timeout 300 /venv/bin/python _seeded/demo.py > /tmp/sv_without.txt 2>&1; without=$?
git apply /tmp/sv_patch.diff
PYTHONPATH=$wt/src timeout 900 /venv/bin/python -m pytest -q -p no:cacheprovider --timeout=900 --continue-on-collection-errors tests > /tmp/sv_tests.txt 2>&1
echo "$wt demo_with_change_exit=$with demo_without_exit=$without tests: $(grep -E "passed|failed" /tmp/sv_tests.txt | tail -1)"
git diff --stat -- src | tail -1
diff <(git diff -- src) _seeded/patch.diff > /dev/null && echo "patch.diff matches worktree diff" || echo "patch.diff differs from worktree diff (regenerating)"
git diff -- src > _seeded/patch.diff
