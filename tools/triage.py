#!/usr/bin/env python3
"""Triage aid: run scenarios of a check and print one example per distinct (class, selected facts)."""
import sys, json, collections
sys.path.insert(0, '/verif')
import importlib
from sim import build, seeds, runner, findings
def main():
    name, n = sys.argv[1], int(sys.argv[2])
    keys = sys.argv[3].split(',') if len(sys.argv) > 3 else ['converter']
    build.ensure_build()
    import logging, warnings
    logging.disable(logging.CRITICAL); warnings.simplefilter('ignore')
    chk = importlib.import_module('checks.' + name.lower())
    chk.setup()
    seen = collections.Counter()
    for i in range(n):
        seed = seeds.derive(0, chk.PROPERTY, i)
        sc = chk.generate(seed, 'quick')
        res = runner.exec_in_child(chk.execute, sc)
        if 'harness_error' in res:
            print('HARNESS', i, res['harness_error'][-500:]); continue
        for v in res['violations']:
            if findings.match(chk.PROPERTY, v): continue
            k = (v['cls'],) + tuple(str(v['facts'].get(x)) for x in keys)
            seen[k] += 1
            if seen[k] == 1:
                print('---', k, 'run', i); print('   ', v['detail'][:900]); print('   facts', v['facts'])
    print(sorted(seen.items(), key=lambda kv: -kv[1]))
main()
