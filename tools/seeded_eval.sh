#!/bin/bash
# tools/seeded_eval.sh <patch.diff> <check ids...>: apply a seeded change to /repo, run the quick checks, undo it straight afterwards.
# Prints one line per check: <id> exit=<code> <VIOLATION lines>.
patch="$1"; shift
cd /verif || exit 2
if ! git -C /repo diff --quiet; then echo "refusing: /repo has uncommitted changes"; exit 2; fi
git -C /repo apply "$patch" || { echo "patch does not apply"; exit 2; }
trap 'git -C /repo checkout -- . ' EXIT
for c in "$@"; do
  out=$(./check "$c" --tier quick --no-evidence ${SEEDED_ARGS:-} 2>&1)
  rc=$?
  echo "$c exit=$rc $(echo "$out" | grep -c '^VIOLATION') violation line(s)"
  echo "$out" | grep -E "class=|^VIOLATION|unknown violation" | cut -c1-400 | head -8
done
