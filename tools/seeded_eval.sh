#!/bin/bash
# tools/seeded_eval.sh <patch.diff> <check ids...>: run the quick checks against a seeded change.
# The change is applied to a scratch worktree of /repo's HEAD (never committed, /repo itself untouched) which the checks
# use through VERIF_REPO; the worktree is reset afterwards.  (Equivalent to: git -C /repo apply; run; git -C /repo checkout -- .)
patch="$(realpath "$1")"; shift
cd /verif || exit 2
W=${MUT_WT:-/root/scratch/repo_mut}
if [ ! -d "$W" ]; then git -C /repo worktree add -q --detach "$W" HEAD || exit 2; fi
git -C "$W" checkout -q -- . ; git -C "$W" checkout -q --detach "$(git -C /repo rev-parse HEAD)"
git -C "$W" apply "$patch" || { echo "patch does not apply"; exit 2; }
for c in "$@"; do
  out=$(VERIF_REPO=$W ./check "$c" --tier quick --no-evidence ${SEEDED_ARGS:-} 2>&1)
  rc=$?
  echo "$c exit=$rc $(echo "$out" | grep -c '^VIOLATION') violation line(s)"
  echo "$out" | grep -E "class=|^VIOLATION|unknown violation" | cut -c1-400 | head -8
done
git -C "$W" checkout -q -- .
