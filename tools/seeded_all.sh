#!/bin/bash
# tools/seeded_all.sh: run, for every kept seeded change, the check(s) recorded in its meta.json (caught_by, default: its own
# property) in the quick tier and report CAUGHT / MISSED. Uses a scratch worktree through VERIF_REPO; /repo is not touched.
cd /verif || exit 2
for d in seeded/*/; do
  id=$(basename "$d")
  checks=$(python3 -c "import json,sys; m=json.load(open('$d/meta.json')); print(' '.join(m.get('caught_by') or [m['property']]))")
  verdict=MISSED
  for c in $checks; do
    out=$(tools/seeded_eval.sh "$d/patch.diff" "$c" 2>&1 | head -2)
    echo "$out" | grep -q "exit=1" && verdict="CAUGHT by $c: $(echo "$out" | grep 'unknown violation' | cut -c36-200)"
  done
  echo "$id: $verdict"
done
