#!/bin/bash
# tools/seeded_all.sh [ids...]: run, for every kept seeded change, the check(s) recorded in its meta.json (caught_by, default: its
# own property) in the quick tier and report CAUGHT / MISSED. Uses a scratch worktree through VERIF_REPO; /repo is not touched.
# The minimised replay file of the first violation is kept as seeded/<id>/replay.json (see tools/seeded_replays.sh).
cd /verif || exit 2
ids=${@:-$(ls -d seeded/*/ | xargs -n1 basename)}
for id in $ids; do
  d=seeded/$id
  if python3 -c "import json,sys; sys.exit(0 if json.load(open('$d/meta.json')).get('obsolete') else 1)"; then echo "$id: OBSOLETE (no longer a breaking change, see meta.json)"; continue; fi
  checks=$(python3 -c "import json,sys; m=json.load(open('$d/meta.json')); print(' '.join(m.get('caught_by') or [m['property']]))")
  verdict=MISSED
  for c in $checks; do
    out=$(tools/seeded_eval.sh "$d/patch.diff" "$c" 2>&1)
    if echo "$out" | head -2 | grep -q "exit=1"; then
      verdict="CAUGHT by $c: $(echo "$out" | grep 'unknown violation' | head -1 | cut -c36-200)"
      rp=$(echo "$out" | grep '^VIOLATION' | head -1 | sed 's/.*replay=//')
      [ -n "$rp" ] && [ -f "$rp" ] && cp "$rp" "$d/replay.json" && echo "$c" > "$d/replay.check"
    fi
  done
  echo "$id: $verdict"
done
