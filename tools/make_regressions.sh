#!/bin/bash
# tools/make_regressions.sh: for every fix: commit, revert it in a scratch worktree, let the named check find and minimise the
# violation again, and keep the replay file as replays/keep-<property>-<commit>.json (regression seeds; selftest replays them).
cd /verif || exit 2
W=/root/scratch/repo_mut
[ -d "$W" ] || git -C /repo worktree add -q --detach "$W" HEAD
while read commit chk focus; do
  git -C "$W" checkout -q -- . ; git -C "$W" checkout -q --detach "$(git -C /repo rev-parse HEAD)"
  git -C "$W" revert --no-commit "$commit" >/dev/null 2>&1 || { echo "$commit: cannot revert"; git -C "$W" revert --abort 2>/dev/null; git -C "$W" checkout -q -- .; continue; }
  out=$(VERIF_REPO=$W ./check "$chk" --tier quick --no-evidence --focus "$focus" 2>&1)
  f=$(echo "$out" | grep '^VIOLATION' | head -1 | sed 's/.*replay=//')
  if [ -n "$f" ]; then cp "$f" "replays/keep-$chk-$commit.json"; echo "$commit $chk: kept $(basename $f) $(echo "$out" | grep 'class=' | head -1 | cut -c1-160)"; else echo "$commit $chk: NOT reproduced"; fi
  git -C "$W" revert --abort 2>/dev/null; git -C "$W" reset -q --hard "$(git -C /repo rev-parse HEAD)"
done <<LIST
60836a7 C01 sul-rejected
91112bd C02 fetch-mismatch
9dd7971 C12 differs
b17ab13 C06 load-exception
6b8468e C11 conversion-failed
821347d C12 no-progress
d103913 C20 identify-raises
d103913 C12 batch-aborted
a73e303 C20 identify-raises
cfd14f6 C11 row-count
11db1cf C11 conversion-failed
b5622e6 C11 well-value
c20a44f C20 identify-raises
0b358cb C05 write-checksum
LIST
