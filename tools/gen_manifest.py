#!/usr/bin/env python3
"""Writes /verif/MANIFEST.json from the table below (kept in one place so it stays valid)."""
import json
import os

HERE = os.path.dirname(os.path.dirname(os.path.abspath(__file__)))

CLAIMED = {
    'C01': ('exploration', '5 C01',
            'seeded search over conformant physical layouts (SUL, segmentation, padding, checksums, trailing lengths, packing into visible records) built by an '
            'independent producer and read back by the real sequential reader through a simulated, access-logged disk; the fault-free base case of the C02 simulation',
            'no injected stored-byte fault (the statement covers conformant files); schedules and histories: a second reader interleaved record by record under an '
            'explicit schedule, other operations on the same reader before and during the scan, the reader re-entered on replaced content, file objects of several kinds '
            'and states, paths in several spellings, process environment (time zone, logging, python -O, warnings, LC_TIME); trusts worlds/dlis_phys.py, '
            'cross-validated by an independent reference reader on every scenario and on the bundled example files',
            'deterministic simulation (seeded layouts and caller histories on a simulated disk), base case of C02'),
    'C02': ('exploration', '5 C02',
            'seeded search over histories of fetches (whole, offset/length, by position), scans, validate() and legal failing calls on one shared-cursor index over a '
            'simulated disk; every fetch checked against the sequential read of the same run, every read against the visible records of the fetched record',
            'sampling, not enumeration; trusts the producer and SimFile honouring the buffered-file contract; no stored-byte fault between operations (no property says '
            'what a reader owes its caller then); also: pickle restart on replaced files, a second index interleaved, file-object kinds and states, environment dimensions',
            'deterministic simulation: seeded operation histories on a simulated disk, reference-model and I/O-footprint oracles'),
    'C04': ('exploration', '5 C04',
            'seeded search over populate histories (full / slice / sample / channel subsets / failing calls, mixed with raw fetches on the same cursor) on logical files '
            'with interleaved frame types, checked bit-for-bit against the content model and for independence from earlier operations',
            'sampling; VSINGL and NaN/denormal patterns left out; multi-dimensional elements compared in recorded order; also: reused set / selector objects, a second '
            'index interleaved, waveforms up to 1100 elements, frame types without index channel, stuck frame numbers, environment dimensions',
            'deterministic simulation: seeded populate histories over reused numpy storage and a shared cursor'),
    'C05': ('exploration', '5 C05',
            'seeded search over interleavings of read(n)/skip(n)/read-rest/skip-rest/next-record/seek/rewind/tell on the stateful physical-record reader (plain, TIF, '
            'reversed TIF, all trailer options, foreign chunking) against a cursor model with attributable payloads; the real writer and strip_tif against the producer',
            'checksum VALUES are compared against a reference validated by the 110 checksum trailers of the repository field file (this found defect 0b358cb); the '
            'record-number start is not compared; also: a second reader interleaved, a second writer on the same stream, path + separate file id, mode attribute flavours',
            'deterministic simulation: seeded reader histories against a reference cursor model on a simulated disk'),
    'C06': ('exploration', '5 C06',
            'seeded search over load histories (slice x channel subset x reused list) on indexed LIS files with direct/indirect X, samples, bursts, irregular records, '
            'TIF and foreign chunking; frames, implied X values, index entries and the I/O footprint checked against the content model',
            'sampling; dipmeter codes and code 50 negative exponents left out; one known finding (KF-C06-1); also: alternate and second log passes, spacing in other '
            'units than X, up to 40 channels, slices past the end, a second file interleaved, environment dimensions',
            'deterministic simulation: seeded load histories with reference-model and I/O-footprint oracles'),
    'C12': ('exploration', '5 C12',
            'the real sequential driver, the real pooled driver under a simulated process pool (seeded worker count, task assignment, interleaving at every '
            'file-system call, clock skew) and every file alone, on identical trees mixing healthy, damaged and foreign files; results and output trees compared',
            'SimPool models fork + chunk size 1; scheduling points are file-system calls; output-side I/O errors not injected; failing allocations under the simulated '
            '4 GiB address space are tracked and relax the comparison for damaged files only; two known findings (KF-C12-1, 1b); also: sibling inputs, symbolic and '
            'dangling links, output directory inside the input tree, relative paths, value / length / record-level faults, environment dimensions',
            'deterministic simulation with fault injection: simulated process pool + seeded schedules + stored-byte faults'),
    'C20': ('fault_enumeration', '5 C20',
            'for each seeded healthy base file of every format the fault set is enumerated over the layout map (truncation at every structural boundary +-1, bit '
            'flips in header bytes and length/type fields, plus seeded other kinds and random byte strings); each member is identified under a deterministic step budget '
            'and the file object state is checked afterwards',
            'enumeration is over structural positions of sampled base files, not over all byte strings; one known finding (KF-C20-1); also: token substitutions and '
            'stretches in text formats, value / length / record-level faults, reused file objects, 7 MB files through path and object, a processor-time quota next to '
            'the step budget',
            'fault enumeration inside the deterministic simulator: stored-byte faults, step budget, simulated file'),
    'C11': ('exploration', '5 C11',
            'the single-file conversions of the C12 simulation (fresh process, simulated clock and file system) on healthy generated RP66V1, LIS and BIT files with swarm '
            'configurations; the LAS output is parsed independently and compared with the content model (rows, columns, values, STRT/STOP/STEP)',
            'single process, no stored-byte fault; histories: the same path converted before with other bytes of the same size; environment dimensions; content oracle '
            'shares the producers with C04/C06; nine known findings (KF-C11-1..9)',
            'deterministic simulation (simulated file system and clock), second oracle on the C12 single-file runs'),
    'C14': ('fault_enumeration', '5 C14',
            'for each seeded DAT model: fault-free parse against the model, then every applicable single-line corruption of every line with a model-derived expected outcome',
            'closed corruption list (those whose outcome the statement leaves open are not generated); also: real text file objects in several states, 17..34 MB '
            'texts, environment dimensions (time zone, LC_TIME, warnings, python -O)',
            'fault enumeration: every single-line stored-text fault of each sampled base file'),
}
NA = {
    'C03': 'pure function bytes->tables; no schedule, fault, clock or history in the statement',
    'C07': 'pure functions over all 2^8/2^16/2^32 words: enumeration/proof territory, nothing to schedule or break',
    'C08': 'pure in-memory encode->decode',
    'C09': 'pure function text->sections/array',
    'C10': 'pure function array->text->array',
    'C13': 'pure function bytes->arrays',
    'C15': 'pure integer arithmetic',
    'C16': 'pure in-memory data structure, no environment',
    'C17': 'pure arithmetic on a static table',
    'C18': 'pure function strings->document',
    'C19': 'pure arithmetic / data->SVG',
}


def main():
    have = sorted(p for p in CLAIMED if os.path.exists(os.path.join(HERE, 'checks', p.lower() + '.py')))
    checks = []
    for p in have:
        cat, ref, text, note, tech = CLAIMED[p]
        checks.append({
            'property_id': p, 'quick_cmd': f'./check {p} --tier quick', 'thorough_cmd': f'./check {p} --tier thorough',
            'evidence_file': f'evidence/{p}.json', 'replay_cmd_template': f'./check {p} --replay {{path}}', 'engine': 'sim',
            'level_claimed': {'category': cat, 'text': text, 'design_ref': ref}, 'level_note': note, 'technique': tech})
    na = [{'property_id': p, 'reason': r} for p, r in sorted(NA.items())]
    for p in sorted(CLAIMED):
        if p not in have:
            na.append({'property_id': p, 'reason': 'check under construction (planned: claimed, see DESIGN.md section 5)'})
    hooks_commits = []
    man = {
        'version': 1,
        'setup_cmd': './check selftest --quick',
        'hooks': {'guard': 'TOTALDEPTH_VERIF',
                  'enable': 'no source hook exists in /repo: every seam is a module attribute or a file-object argument replaced from the harness; checks export TOTALDEPTH_VERIF=1 (reserved)',
                  'baseline_off_cmd': 'cd /repo && /venv/bin/python -m pytest -ra -q -p no:cacheprovider --timeout=900 --continue-on-collection-errors',
                  'source_commits': hooks_commits, 'add_only': True},
        'engines': [{'name': 'sim', 'path': 'sim/', 'serves_properties': have,
                     'kind_free_text': 'deterministic simulator: one seed -> explicit scenario; simulated disk (SimFile), simulated process pool with seeded scheduler (SimPool), '
                                       'simulated file-system interception and clock, stored-byte fault injector, deterministic step budget, per-scenario fork, minimiser, replay'}],
        'checks': checks,
        'not_applicable': na,
        'notes': 'Exit codes: 0 held (KNOWN-FINDING lines possible), 1 VIOLATION, 2 harness error. known_findings.json lists recorded and fixed defects. DESIGN.md explains the N/A rule.',
    }
    with open(os.path.join(HERE, 'MANIFEST.json'), 'w') as f:
        json.dump(man, f, indent=1)
    print('claimed:', have)


if __name__ == '__main__':
    main()
