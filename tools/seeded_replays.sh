#!/bin/bash
# tools/seeded_replays.sh [ids...]: the fast regression suite of the machinery itself. For every kept seeded change with a
# replay file: the replay must show NO violation on the unchanged tree and the SAME violation class with the change applied
# (scratch worktree through VERIF_REPO; /repo is not touched). A replay that stops reproducing after a generator change is
# reported as STALE (re-create it with tools/seeded_all.sh <id>), not as a failure of the check.
cd /verif || exit 2
W=${MUT_WT:-/root/scratch/repo_mut}
[ -d "$W" ] || git -C /repo worktree add -q --detach "$W" HEAD || exit 2
ids=${@:-$(ls -d seeded/*/ | xargs -n1 basename)}
bad=0
for id in $ids; do
  d=seeded/$id
  if python3 -c "import json,sys; sys.exit(0 if json.load(open('$d/meta.json')).get('obsolete') else 1)"; then echo "$id: obsolete (skipped)"; continue; fi
  [ -f "$d/replay.json" ] || { echo "$id: no replay file"; continue; }
  c=$(cat "$d/replay.check")
  ./check "$c" --replay "$d/replay.json" > /tmp/sr_clean.txt 2>&1; rc0=$?
  git -C "$W" checkout -q -- . ; git -C "$W" checkout -q --detach "$(git -C /repo rev-parse HEAD)"
  git -C "$W" apply "$(realpath "$d/patch.diff")" || { echo "$id: patch does not apply"; bad=1; continue; }
  VERIF_REPO=$W ./check "$c" --replay "$d/replay.json" > /tmp/sr_mut.txt 2>&1; rc1=$?
  git -C "$W" checkout -q -- .
  if [ $rc0 -eq 0 ] && [ $rc1 -eq 1 ]; then echo "$id: ok (clean on the tree, violation with the change)";
  elif [ $rc0 -ne 0 ]; then echo "$id: FALSE ALARM? replay exits $rc0 on the unchanged tree"; bad=1;
  else echo "$id: STALE (exit $rc1 with the change)"; fi
done
exit $bad
