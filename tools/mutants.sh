#!/bin/bash
# tools/mutants.sh [names...]: sensitivity campaign (DESIGN 2.11). Applies each mutants/<prefix>_*.patch to a scratch worktree of
# /repo (never to /repo itself), runs the quick tier of the check named by the prefix against it via VERIF_REPO, reports
# CAUGHT / MISSED, removes the worktree. Not part of any verdict.
cd /verif || exit 2
W=${MUT_WT:-/root/scratch/repo_mut}
if [ ! -d "$W" ]; then git -C /repo worktree add -q --detach "$W" HEAD || exit 2; made=1; fi
git -C "$W" checkout -q --detach "$(git -C /repo rev-parse HEAD)" 2>/dev/null
pats=${@:-$(ls mutants/*.patch)}
for p in $pats; do
  [ -f "$p" ] || p=mutants/$p.patch
  name=$(basename "$p" .patch); chk=$(echo "$name" | cut -d_ -f1 | tr c C)
  git -C "$W" checkout -q -- . ; git -C "$W" apply "$(realpath "$p")" || { echo "$name: patch does not apply"; continue; }
  out=$(VERIF_REPO=$W ./check "$chk" --tier quick --no-evidence ${MUT_ARGS:-} 2>&1); rc=$?
  if [ $rc -eq 1 ]; then verdict=CAUGHT; elif [ $rc -eq 0 ]; then verdict=MISSED; else verdict="HARNESS($rc)"; fi
  echo "$name [$chk]: $verdict $(echo "$out" | grep 'unknown violation' | cut -c1-220)"
done
git -C "$W" checkout -q -- .
[ -n "$made" ] && git -C /repo worktree remove --force "$W"
