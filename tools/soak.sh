#!/bin/bash
# tools/soak.sh <first seed> <last seed> [checks...]: run the quick tier of every check under several VERIF_SEED values (no evidence written).
first=$1; last=$2; shift 2
checks=${@:-C01 C02 C04 C05 C06 C11 C12 C14 C20}
for s in $(seq $first $last); do
  for c in $checks; do
    out=$(VERIF_SEED=$s ./check $c --tier quick --no-evidence 2>&1); rc=$?
    echo "seed=$s $c exit=$rc $(echo "$out" | tail -1 | cut -c1-160)"
    if [ $rc -ne 0 ]; then echo "$out" | grep -E "class=|^VIOLATION|HARNESS|^    " | head -12 | cut -c1-500; fi
  done
done
