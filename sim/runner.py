"""Everything that is the same for all checks (DESIGN appendix A): tier budgets, sharding of run
indices over worker processes, per-scenario fork, wall-clock safety net, outcome classification,
minimisation, replay files, evidence files, known-finding matching, exit code.

A check module supplies:

    PROPERTY, LEVEL, RUNS = {'quick': n, 'thorough': n}, RULE (text), REAL, STUB, ASSUMPTIONS
    setup()                       import TotalDepth (after sim.build.ensure_build())
    generate(seed, tier) -> scenario            (JSON-serialisable, all randomness spent here)
    execute(scenario) -> result dict            (no randomness; see ``Result``)
    candidates(scenario) -> iterator of simpler scenarios (for the minimiser)

Exit codes: 0 property held (possibly KNOWN-FINDING lines), 1 VIOLATION, 2 harness error.
"""
import argparse
import concurrent.futures
import faulthandler
import json
import multiprocessing
import os
import select
import signal
import sys
import time
import traceback

from . import seeds, findings

VERIF = os.path.dirname(os.path.dirname(os.path.abspath(__file__)))
CHILD_TIMEOUT_S = 120.0


class Result:
    """Accumulates what one execution observed."""

    def __init__(self):
        self.violations = []   # {'cls':..., 'facts': {...}, 'detail': str}
        self.events = []       # the event log (JSON-able tuples)
        self.probes = {}
        self.ops = {}
        self.faults = {}
        self.notes = {}
        self.sim_time = 0.0
        self.shape = ''

    def ev(self, *item):
        self.events.append(item)

    def probe(self, name, n=1):
        self.probes[name] = self.probes.get(name, 0) + n

    def op(self, kind, n=1):
        self.ops[kind] = self.ops.get(kind, 0) + n

    def fault(self, kind, n=1):
        self.faults[kind] = self.faults.get(kind, 0) + n

    def violation(self, cls, detail, **facts):
        self.violations.append({'cls': cls, 'facts': facts, 'detail': str(detail)[:600]})
        self.ev('VIOLATION', cls, facts)

    def as_dict(self):
        return {
            'violations': self.violations,
            'digest': seeds.digest(self.events),
            'n_events': len(self.events),
            'probes': self.probes, 'ops': self.ops, 'faults': self.faults,
            'notes': self.notes, 'sim_time': self.sim_time, 'shape': self.shape,
        }


class HarnessError(Exception):
    pass


def apply_env(scenario):
    """Per-scenario environment configuration (swarm, DESIGN 2.7): the logging level of the process the library runs in.
    Part of the scenario (key 'env'), so a replay sets it up the same way."""
    import logging
    env = scenario.get('env') if isinstance(scenario, dict) else None
    if env and env.get('tz'):
        # the time zone of the simulated machine (POSIX TZ string: no zone database needed)
        os.environ['TZ'] = env['tz']
        time.tzset()
    if env and env.get('lc_time'):
        # the process has selected a non-English LC_TIME (locale.setlocale(LC_ALL, '') on a localised machine)
        import locale
        from . import build
        loc_dir = build.ensure_locale()
        if loc_dir:
            os.environ['LOCPATH'] = loc_dir
            try:
                locale.setlocale(locale.LC_TIME, env['lc_time'])
            except locale.Error:
                pass
    if env and env.get('warn'):
        # the process turns DeprecationWarning into an error (python -W error::DeprecationWarning, pytest filterwarnings = error)
        import warnings
        warnings.filterwarnings('error', category=DeprecationWarning)
    if env and env.get('log') == 'DEBUG':
        root = logging.getLogger()
        for h in list(root.handlers):
            root.removeHandler(h)
        root.addHandler(logging.NullHandler())
        root.setLevel(logging.DEBUG)
        logging.disable(logging.NOTSET)
    else:
        logging.disable(logging.CRITICAL)


#: The simulated machine: address space of every process that runs library code.  A damaged length or dimension field can ask
#: for gigabytes (e.g. a flipped RP66V1 DIMENSION makes itertools.product build a tuple of 7e8 integers); on a machine with
#: this much memory the allocation fails at once and the library's own error handling takes over.  Without a limit the
#: same request stalls for tens of seconds inside C code, where the step budget cannot see it.
MEMORY_LIMIT_BYTES = 4 << 30


def limit_memory():
    import resource
    try:
        soft, hard = resource.getrlimit(resource.RLIMIT_AS)
        if soft == resource.RLIM_INFINITY or soft > MEMORY_LIMIT_BYTES:
            resource.setrlimit(resource.RLIMIT_AS, (MEMORY_LIMIT_BYTES, hard))
    except (ValueError, OSError):
        pass


#: time zones of the simulated machine: none of the properties mentions local time, so no result may depend on it
TIME_ZONES = ['AEST-10', 'EST5EDT,M3.2.0,M11.1.0', 'NST3:30NDT,M3.2.0,M11.1.0', 'XKT-13', 'BST0BST-1,M1.1.0,M12.5.0', 'IDLW12']


def gen_env(seed):
    env = {'log': 'DEBUG' if seeds.derive(seed, 'env') % 8 == 0 else 'off'}
    z = seeds.derive(seed, 'env-tz') % 16
    if z < len(TIME_ZONES):
        env['tz'] = TIME_ZONES[z]
    if seeds.derive(seed, 'env-opt') % 16 == 0:
        env['optimize'] = 1          # python -O: assert statements are not executed
    if seeds.derive(seed, 'env-warn') % 16 == 0:
        env['warn'] = 'error::DeprecationWarning'
    if seeds.derive(seed, 'env-lc') % 16 == 0:
        env['lc_time'] = 'de_DE'     # a non-English LC_TIME (month and day names), compiled by sim.build.ensure_locale()
    return env


# ------------------------------------------------------------------------------------------------
# The simulated machine may run its interpreter with assertions stripped (python -O): scenario['env']['optimize'].  That cannot be
# switched on in a forked child, so each worker keeps one ``python -O`` server process; the server forks one child per scenario
# exactly as exec_in_child does here, only inside an interpreter that compiled everything without assert statements.
_OPT_SERVER = None


def opt_server_main(check_module):
    """Entry point of the ``python -O`` server: one JSON scenario per line on stdin, one JSON result per line on stdout."""
    import importlib
    assert False, 'the server must run with -O'          # stripped when started as intended
    from . import build
    out = os.fdopen(os.dup(1), 'w')
    os.dup2(2, 1)                                        # nothing else may write to the protocol pipe
    build.ensure_build()
    check = importlib.import_module(check_module)
    check.setup()
    import logging
    import warnings
    logging.disable(logging.CRITICAL)
    warnings.simplefilter('ignore')
    out.write(json.dumps({'ready': sys.flags.optimize}) + '\n')
    out.flush()
    for line in sys.stdin:
        scenario = json.loads(line)
        res = exec_in_child(check.execute, scenario, in_opt_server=True)
        out.write(json.dumps(res, default=seeds._default) + '\n')
        out.flush()


def _opt_exec(execute, scenario, timeout):
    global _OPT_SERVER
    import subprocess
    mod = execute.__module__
    for attempt in (0, 1):
        if _OPT_SERVER is None or _OPT_SERVER[0] != mod or _OPT_SERVER[1].poll() is not None:
            env = dict(os.environ, PYTHONHASHSEED='0', PYTHONDONTWRITEBYTECODE='1')
            proc = subprocess.Popen([sys.executable, '-O', '-X', 'faulthandler', '-c',
                                     'import sys; sys.path.insert(0, %r); from sim import runner; runner.opt_server_main(%r)' % (VERIF, mod)],
                                    stdin=subprocess.PIPE, stdout=subprocess.PIPE, stderr=subprocess.DEVNULL, env=env, cwd=VERIF)
            ready = _read_line(proc, 300.0)
            if ready is None or json.loads(ready).get('ready') != 1:
                proc.kill()
                return {'harness_error': f'python -O server did not start: {ready!r}'}
            _OPT_SERVER = (mod, proc)
        proc = _OPT_SERVER[1]
        try:
            proc.stdin.write((json.dumps(scenario, default=seeds._default) + '\n').encode('utf8'))
            proc.stdin.flush()
        except (BrokenPipeError, OSError):
            _OPT_SERVER = None
            continue
        line = _read_line(proc, timeout + 30.0)
        if line is None:
            proc.kill()
            _OPT_SERVER = None
            return {'harness_error': 'python -O server gave no answer'}
        return json.loads(line)
    return {'harness_error': 'python -O server cannot be reached'}


def _read_line(proc, timeout):
    fd = proc.stdout.fileno()
    buf = getattr(proc, '_verif_buf', b'')
    deadline = time.monotonic() + timeout
    while b'\n' not in buf:
        left = deadline - time.monotonic()
        if left <= 0:
            return None
        ready, _, _ = select.select([fd], [], [], min(left, 5.0))
        if ready:
            by = os.read(fd, 1 << 16)
            if not by:
                return None
            buf += by
    line, _, rest = buf.partition(b'\n')
    proc._verif_buf = rest
    return line.decode('utf8')


def exec_in_child(execute, scenario, timeout=CHILD_TIMEOUT_S, in_opt_server=False):
    """Run ``execute(scenario)`` in a forked child (DESIGN 2.10) and return its result dict.
    Returns {'harness_error': text} if the harness itself failed or the wall-clock net fired."""
    if not in_opt_server and not sys.flags.optimize and isinstance(scenario, dict) and (scenario.get('env') or {}).get('optimize'):
        return _opt_exec(execute, scenario, timeout)
    r, w = os.pipe()
    pid = os.fork()
    if pid == 0:
        code = 0
        try:
            os.close(r)
            try:
                apply_env(scenario)
                limit_memory()
                res = execute(scenario)
                if isinstance(res, Result):
                    res = res.as_dict()
                data = json.dumps(res, default=seeds._default)
            except BaseException:
                data = json.dumps({'harness_error': traceback.format_exc()[-3000:]})
            view = memoryview(data.encode('utf8'))
            while view:
                n = os.write(w, view)
                view = view[n:]
        except BaseException:
            code = 3
        finally:
            os._exit(code)
    os.close(w)
    chunks = []
    deadline = time.monotonic() + timeout
    timed_out = False
    while True:
        left = deadline - time.monotonic()
        if left <= 0:
            timed_out = True
            break
        ready, _, _ = select.select([r], [], [], min(left, 5.0))
        if ready:
            by = os.read(r, 1 << 16)
            if not by:
                break
            chunks.append(by)
    os.close(r)
    if timed_out:
        try:
            os.kill(pid, signal.SIGKILL)
        except OSError:
            pass
    _, status = os.waitpid(pid, 0)
    _cleanup_scratch(pid)
    if timed_out:
        return {'harness_error': f'wall-clock safety net: child exceeded {timeout}s'}
    try:
        return json.loads(b''.join(chunks).decode('utf8'))
    except Exception:
        return {'harness_error': f'child died, wait status {status}, {len(b"".join(chunks))} bytes of output'}


def _cleanup_scratch(pid):
    """Remove whatever scratch tree a (possibly killed) scenario child left behind."""
    import shutil
    from . import build
    try:
        shutil.rmtree(os.path.join(build.scratch_root(), f'tdsim-{pid}'), ignore_errors=True)
    except Exception:
        pass


# ------------------------------------------------------------------------------------------------
_CHECK = None  # the check module, set in main() before the pool forks


def _run_chunk(args):
    indices, tier, base = args
    out = []
    for i in indices:
        seed = seeds.derive(base, _CHECK.PROPERTY, i)
        t0 = time.perf_counter()
        try:
            scenario = _CHECK.generate(seed, tier)
            if isinstance(scenario, dict) and 'env' not in scenario:
                scenario['env'] = gen_env(seed)
        except BaseException:
            out.append({'i': i, 'seed': seed, 'harness_error': 'generate: ' + traceback.format_exc()[-2000:]})
            continue
        res = exec_in_child(_CHECK.execute, scenario)
        res['i'] = i
        res['seed'] = seed
        res['size'] = len(json.dumps(scenario, default=seeds._default))
        res['env_log'] = scenario.get('env', {}).get('log', 'off')
        res['env_tz'] = scenario.get('env', {}).get('tz', '')
        res['env_opt'] = scenario.get('env', {}).get('optimize', 0)
        res['env_warn'] = 1 if scenario.get('env', {}).get('warn') else 0
        res['env_lc'] = 1 if scenario.get('env', {}).get('lc_time') else 0
        res['wall'] = time.perf_counter() - t0
        out.append(res)
    return out


def classify(check, res):
    """Split a result's violations into (unknown, known{id: entry})."""
    unknown, known = [], {}
    for v in res.get('violations', []):
        entry = findings.match(check.PROPERTY, v)
        if entry is None:
            unknown.append(v)
        else:
            known.setdefault(entry['id'], entry)
    return unknown, known


def minimise(check, scenario, target_cls, budget=300, verbose=False):
    """Greedy reduction to a fix-point: accept a candidate iff it still shows an *unknown* violation
    of class ``target_cls``."""
    def fails(sc):
        res = exec_in_child(check.execute, sc)
        if 'harness_error' in res:
            return None
        unknown, _ = classify(check, res)
        for v in unknown:
            if v['cls'] == target_cls:
                return res
        return None

    best = scenario
    best_res = fails(best)
    if best_res is None:
        return scenario, None, 0
    spent = 0
    improved = True
    while improved and spent < budget:
        improved = False
        for cand in check.candidates(best):
            if spent >= budget:
                break
            spent += 1
            try:
                res = fails(cand)
            except Exception:
                res = None
            if res is not None:
                best, best_res = cand, res
                improved = True
                if verbose:
                    print(f'  minimise: size {len(json.dumps(best, default=seeds._default))} after {spent} runs', file=sys.stderr)
                break
    return best, best_res, spent


def write_replay(check, run, scenario, res, violation, original_size, spent, base):
    os.makedirs(os.path.join(VERIF, 'replays'), exist_ok=True)
    path = os.path.join(VERIF, 'replays', f'{check.PROPERTY}-{run["seed"]}.json')
    doc = {
        'property': check.PROPERTY,
        'base_seed': base,
        'run_index': run['i'],
        'seed': run['seed'],
        'violation': violation,
        'digest': res['digest'],
        'minimised': {'executions': spent, 'original_size': original_size,
                      'size': len(json.dumps(scenario, default=seeds._default))},
        'scenario': scenario,
    }
    with open(path, 'w') as f:
        json.dump(doc, f, indent=1, default=seeds._default)
    return path


def validate_evidence(ev):
    need = ['property_id', 'tier', 'seed', 'level', 'coverage', 'wall_s']
    for k in need:
        if k not in ev:
            raise HarnessError(f'evidence lacks {k}')
    cov = ev['coverage']
    for k in ('evaluations', 'distinct_nontrivial', 'rule', 'samples'):
        if k not in cov:
            raise HarnessError(f'evidence coverage lacks {k}')
    if not (isinstance(cov['evaluations'], int) and cov['evaluations'] >= 1):
        raise HarnessError('evaluations < 1')
    if not (isinstance(cov['distinct_nontrivial'], int) and cov['distinct_nontrivial'] >= 2):
        raise HarnessError(f'distinct_nontrivial = {cov["distinct_nontrivial"]} < 2')
    if not cov['samples']:
        raise HarnessError('no samples')


def _merge(dst, src):
    for k, v in src.items():
        dst[k] = dst.get(k, 0) + v


def replay(check, path):
    with open(path) as f:
        doc = json.load(f)
    scenario = doc['scenario'] if 'scenario' in doc else doc
    res = exec_in_child(check.execute, scenario)
    if 'harness_error' in res:
        print('HARNESS-ERROR ' + res['harness_error'], file=sys.stderr)
        return 2
    unknown, known = classify(check, res)
    print(f'replay {path}: digest={res["digest"]} events={res["n_events"]}')
    if 'digest' in doc and doc['digest'] != res['digest']:
        print(f'  note: recorded digest {doc["digest"]} differs (code changed since the replay was written?)')
    for kid, entry in sorted(known.items()):
        print(f'KNOWN-FINDING: property={check.PROPERTY} {entry["what"]} [{kid}]')
    for v in unknown:
        print(f'  violation class={v["cls"]} facts={json.dumps(v["facts"], sort_keys=True)}\n    {v["detail"]}')
    if unknown:
        print(f'VIOLATION property={check.PROPERTY} replay={path}')
        return 1
    print('no violation')
    return 0


def main(check, argv=None):
    global _CHECK
    ap = argparse.ArgumentParser(prog=f'check {check.PROPERTY}')
    ap.add_argument('--tier', default=os.environ.get('VERIF_TIER', 'quick'), choices=['quick', 'thorough'])
    ap.add_argument('--runs', type=int, default=None)
    ap.add_argument('--first', type=int, default=0, help='first run index')
    ap.add_argument('--jobs', type=int, default=int(os.environ.get('VERIF_JOBS', '16')))
    ap.add_argument('--replay', default=None)
    ap.add_argument('--emit-digests', default=None, help='write {run index: digest} here (self-test)')
    ap.add_argument('--no-evidence', action='store_true')
    ap.add_argument('--no-minimise', action='store_true')
    ap.add_argument('--show', type=int, default=None, help='print the scenario of this run index and exit')
    ap.add_argument('--verbose', action='store_true')
    ap.add_argument('--focus', default=None, help='debugging aid: only report violations whose class starts with one of these comma separated prefixes')
    args = ap.parse_args(argv)

    faulthandler.enable()
    t_start = time.perf_counter()
    base = seeds.base_seed()
    print(f'VERIF_SEED={base} property={check.PROPERTY} tier={args.tier}')
    from . import build
    try:
        build.ensure_build()
        check.setup()
        import logging
        import warnings
        logging.disable(logging.CRITICAL)       # the code under test logs every damaged file; output only
        warnings.simplefilter('ignore')
    except Exception:
        print('HARNESS-ERROR setup: ' + traceback.format_exc(), file=sys.stderr)
        return 2
    _CHECK = check

    if args.show is not None:
        seed = seeds.derive(base, check.PROPERTY, args.show)
        sc = check.generate(seed, args.tier)
        sc.setdefault('env', gen_env(seed))
        print(json.dumps(sc, indent=1, default=seeds._default))
        return 0
    if args.replay:
        return replay(check, args.replay)

    n_runs = args.runs if args.runs is not None else check.RUNS[args.tier]
    indices = list(range(args.first, args.first + n_runs))
    jobs = max(1, min(args.jobs, len(indices)))
    chunk = max(1, min(50, len(indices) // (jobs * 4) or 1))
    tasks = [(indices[k:k + chunk], args.tier, base) for k in range(0, len(indices), chunk)]
    # ---- streaming aggregation: nothing is kept per run except a small tuple (and the violating runs themselves)
    probes, ops, faults = {}, {}, {}
    shapes_nontrivial = set()
    shapes_all = set()
    digests_seen = set()
    known_seen = {}
    violating = []
    harness_errors = []
    n_harness = 0
    sim_time = 0.0
    faulted_runs = 0
    n_ok = 0
    n_events = 0
    n_debug = 0
    tz_runs = {}
    sizes = []            # (size, run index, seed, digest)
    digest_map = {} if args.emit_digests else None
    extra_acc = {}
    accumulate = getattr(check, 'evidence_accumulate', None)

    def absorb(r):
        nonlocal n_harness, sim_time, faulted_runs, n_ok, n_events, n_debug
        if digest_map is not None:
            digest_map[str(r['i'])] = r.get('digest', 'HARNESS:' + r.get('harness_error', '')[:200])
        if 'harness_error' in r:
            n_harness += 1
            if len(harness_errors) < 20:
                harness_errors.append(r)
            return
        n_ok += 1
        n_events += r['n_events']
        digests_seen.add(r['digest'])
        sizes.append((r['size'], r['i'], r['seed'], r['digest']))
        if r.get('env_log') == 'DEBUG':
            n_debug += 1
        if r.get('env_tz'):
            tz_runs[r['env_tz']] = tz_runs.get(r['env_tz'], 0) + 1
        if r.get('env_opt'):
            tz_runs['__opt__'] = tz_runs.get('__opt__', 0) + 1
        if r.get('env_warn'):
            tz_runs['__warn__'] = tz_runs.get('__warn__', 0) + 1
        if r.get('env_lc'):
            tz_runs['__lc__'] = tz_runs.get('__lc__', 0) + 1
        _merge(probes, r['probes'])
        _merge(ops, r['ops'])
        _merge(faults, r['faults'])
        sim_time += r.get('sim_time', 0.0)
        if r['faults']:
            faulted_runs += 1
        shapes_all.add(r['shape'])
        if r['probes']:
            shapes_nontrivial.add(r['shape'])
        if accumulate is not None:
            accumulate(extra_acc, r)
        unknown, known = classify(check, r)
        if args.focus:
            unknown = [v for v in unknown if any((v['cls'] + ' ' + ' '.join(f'{k}={x}' for k, x in v['facts'].items())).find(f) >= 0 for f in args.focus.split(','))]
        for kid, entry in known.items():
            known_seen.setdefault(kid, {'entry': entry, 'runs': 0})
            known_seen[kid]['runs'] += 1
        if unknown:
            violating.append(({'i': r['i'], 'seed': r['seed'], 'digest': r['digest'], 'violations': r['violations']} if len(violating) >= 200 else r, unknown))

    ctx = multiprocessing.get_context('fork')
    with concurrent.futures.ProcessPoolExecutor(max_workers=jobs, mp_context=ctx) as ex:
        futs = [ex.submit(_run_chunk, t) for t in tasks]
        for fu in futs:
            try:
                for r in fu.result(timeout=3600):
                    absorb(r)
            except Exception:
                print('HARNESS-ERROR worker: ' + traceback.format_exc(), file=sys.stderr)
                return 2
    violating.sort(key=lambda rv: rv[0]['i'])
    t_exec = time.perf_counter() - t_start

    if args.emit_digests:
        with open(args.emit_digests, 'w') as f:
            json.dump(digest_map, f)

    for kid in sorted(known_seen):
        e = known_seen[kid]
        print(f'KNOWN-FINDING: property={check.PROPERTY} {e["entry"]["what"]} [{kid}; {e["runs"]} runs]')

    cls_count = {}
    for r, unknown in violating:
        for c in sorted({v['cls'] + ''.join(f' {k}={v["facts"][k]}' for k in ('converter', 'key', 'exc', 'where') if v['facts'].get(k)) for v in unknown}):
            cls_count[c] = cls_count.get(c, 0) + 1
    if cls_count:
        print(f'unknown violation classes (runs): {json.dumps(cls_count, sort_keys=True)}')
    # Minimise and report up to 3 distinct unknown violation classes.
    reported = []
    seen_cls = set()
    for r, unknown in violating:
        cls = unknown[0]['cls']
        if cls in seen_cls:
            continue
        seen_cls.add(cls)
        if len(seen_cls) > 3:
            break
        scenario = check.generate(r['seed'], args.tier)
        scenario.setdefault('env', gen_env(r['seed']))
        original = len(json.dumps(scenario, default=seeds._default))
        spent = 0
        res = r
        if not args.no_minimise:
            small, small_res, spent = minimise(check, scenario, cls, verbose=args.verbose)
            if small_res is not None:
                scenario, res = small, small_res
        u2, _ = classify(check, res)
        v = next((x for x in u2 if x['cls'] == cls), unknown[0])
        path = write_replay(check, r, scenario, res, v, original, spent, base)
        print(f'  class={cls} run={r["i"]} seed={r["seed"]} facts={json.dumps(v["facts"], sort_keys=True)}')
        print(f'    {v["detail"]}')
        print(f'VIOLATION property={check.PROPERTY} replay={path}')
        reported.append(path)

    for r in harness_errors[:3]:
        print(f'HARNESS-ERROR run={r["i"]} seed={r["seed"]}: {r["harness_error"]}', file=sys.stderr)

    wall = time.perf_counter() - t_start
    if not args.no_evidence and n_ok:
        sizes.sort()
        picks = [sizes[0], sizes[len(sizes) // 2], sizes[-1]]
        samples = []
        for _size, r_i, r_seed, r_digest in picks:
            sc = check.generate(r_seed, args.tier)
            sc.setdefault('env', gen_env(r_seed))
            text = json.dumps(sc, default=seeds._default)
            samples.append({'run_index': r_i, 'seed': r_seed, 'digest': r_digest,
                            'scenario': sc if len(text) < 6000 else {'truncated_json': text[:6000]}})
        zero = sorted(p for p in getattr(check, 'PROBES', []) if not probes.get(p))
        ev = {
            'property_id': check.PROPERTY,
            'tier': args.tier,
            'seed': base,
            'level': check.LEVEL,
            'coverage': {
                'evaluations': n_ok,
                'distinct_nontrivial': len(shapes_nontrivial),
                'rule': check.RULE,
                'samples': samples,
                'exhaustive': False,
                'runs_per_hour': int(n_ok / max(t_exec, 1e-6) * 3600),
                'seeds': {'base': base, 'first_run_index': indices[0], 'last_run_index': indices[-1],
                          'derivation': 'blake2b(VERIF_SEED:property:run_index)'},
                'sim_time_s': round(sim_time, 3),
                'faults_fired': dict(sorted(faults.items())),
                'ops': dict(sorted(ops.items())),
                'probes': dict(sorted(probes.items())),
                'probes_at_zero': zero,
                'distinct_shapes': len(shapes_all),
                'distinct_event_logs': len(digests_seen),
                'events_total': n_events,
                'fault_free_runs': n_ok - faulted_runs,
                'faulted_runs': faulted_runs,
                'harness_errors': n_harness,
                'runs_with_debug_logging_enabled': n_debug,
                'runs_per_simulated_time_zone': dict(sorted((k, v) for k, v in tz_runs.items() if not k.startswith('__'))),
                'runs_with_assertions_stripped_python_O': tz_runs.get('__opt__', 0),
                'runs_with_DeprecationWarning_as_error': tz_runs.get('__warn__', 0),
                'runs_with_non_English_LC_TIME': tz_runs.get('__lc__', 0),
                'known_findings_seen': sorted(known_seen),
                'real_components': check.REAL,
                'stub_components': check.STUB,
                'worker_processes': jobs,
            },
            'assumptions': check.ASSUMPTIONS,
            'wall_s': round(wall, 2),
            'violations': len(violating),
        }
        extra = getattr(check, 'evidence_extra', None)
        if extra:
            ev['coverage'].update(extra(extra_acc))
        try:
            validate_evidence(ev)
        except HarnessError as err:
            print(f'HARNESS-ERROR evidence: {err}', file=sys.stderr)
            return 2
        os.makedirs(os.path.join(VERIF, 'evidence'), exist_ok=True)
        with open(os.path.join(VERIF, 'evidence', f'{check.PROPERTY}.json'), 'w') as f:
            json.dump(ev, f, indent=1, default=seeds._default)

    print(f'{check.PROPERTY}: runs={n_ok} violating={len(violating)} known={sorted(known_seen)} '
          f'harness_errors={n_harness} shapes={len(shapes_nontrivial)} wall={wall:.1f}s '
          f'({int(n_ok / max(t_exec, 1e-6) * 3600)} runs/h)')
    if reported:
        return 1
    if n_harness:
        return 2
    return 0
