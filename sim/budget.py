"""Deterministic step budget (DESIGN 2.6): counts PY_START and JUMP events with sys.monitoring and
raises a BaseException subclass when a limit is exceeded, so that "terminates promptly" has a
replayable meaning and the library's ``except Exception`` cannot swallow it."""
import sys

TOOL_ID = 4


class BudgetExceeded(BaseException):
    pass


class StepBudget:
    def __init__(self, limit: int):
        self.limit = int(limit)
        self.count = 0
        self.active = False
        self.tripped = False

    def _on_event(self, *args):
        self.count += 1
        if self.count > self.limit and self.active:
            self.active = False
            self.tripped = True
            raise BudgetExceeded(f'step budget of {self.limit} exceeded')

    def __enter__(self):
        mon = sys.monitoring
        try:
            mon.use_tool_id(TOOL_ID, 'verif-budget')
        except ValueError:
            mon.free_tool_id(TOOL_ID)
            mon.use_tool_id(TOOL_ID, 'verif-budget')
        ev = mon.events
        mon.register_callback(TOOL_ID, ev.PY_START, self._on_event)
        mon.register_callback(TOOL_ID, ev.JUMP, self._on_event)
        self.count = 0
        self.active = True
        mon.set_events(TOOL_ID, ev.PY_START | ev.JUMP)
        return self

    def __exit__(self, *exc):
        mon = sys.monitoring
        self.active = False
        mon.set_events(TOOL_ID, 0)
        mon.register_callback(TOOL_ID, mon.events.PY_START, None)
        mon.register_callback(TOOL_ID, mon.events.JUMP, None)
        mon.free_tool_id(TOOL_ID)
        return False
