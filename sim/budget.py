"""Deterministic step budget (DESIGN 2.6): counts PY_START and JUMP events with sys.monitoring and
raises a BaseException subclass when a limit is exceeded, so that "terminates promptly" has a
replayable meaning and the library's ``except Exception`` cannot swallow it."""
import signal
import sys

TOOL_ID = 4


class BudgetExceeded(BaseException):
    pass


class StepBudget:
    """``cpu_s``: additionally a quota of processor time of this process (ITIMER_VIRTUAL: user-mode CPU time, so independent
    of the load of the machine) for loops that run inside C code where no Python step is counted: CPython's regular
    expression engine polls for signals, so catastrophic backtracking is interrupted by it.  The quota is three orders of
    magnitude above what any operation of the unchanged library uses; exceeding it is reported exactly like the step budget."""

    def __init__(self, limit: int, cpu_s: float = None):
        self.cpu_s = cpu_s
        self._old_handler = None
        self.limit = int(limit)
        self.count = 0
        self.active = False
        self.tripped = False

    def _on_event(self, *args):
        self.count += 1
        if self.count > self.limit and self.active:
            self.active = False
            self.tripped = True
            raise BudgetExceeded(f'step budget of {self.limit} exceeded')

    def _on_cpu(self, signum, frame):
        if self.active:
            self.active = False
            self.tripped = True
            raise BudgetExceeded(f'processor time quota of {self.cpu_s}s exceeded')

    def __enter__(self):
        if self.cpu_s:
            self._old_handler = signal.signal(signal.SIGVTALRM, self._on_cpu)
            signal.setitimer(signal.ITIMER_VIRTUAL, self.cpu_s)
        mon = sys.monitoring
        try:
            mon.use_tool_id(TOOL_ID, 'verif-budget')
        except ValueError:
            mon.free_tool_id(TOOL_ID)
            mon.use_tool_id(TOOL_ID, 'verif-budget')
        ev = mon.events
        mon.register_callback(TOOL_ID, ev.PY_START, self._on_event)
        mon.register_callback(TOOL_ID, ev.JUMP, self._on_event)
        self.count = 0
        self.active = True
        mon.set_events(TOOL_ID, ev.PY_START | ev.JUMP)
        return self

    def __exit__(self, *exc):
        mon = sys.monitoring
        self.active = False
        if self.cpu_s:
            signal.setitimer(signal.ITIMER_VIRTUAL, 0)
            signal.signal(signal.SIGVTALRM, self._old_handler if self._old_handler is not None else signal.SIG_DFL)
        mon.set_events(TOOL_ID, 0)
        mon.register_callback(TOOL_ID, mon.events.PY_START, None)
        mon.register_callback(TOOL_ID, mon.events.JUMP, None)
        mon.free_tool_id(TOOL_ID)
        return False
