"""Build TotalDepth's extension modules from /repo's *current working tree* and arrange imports.

DESIGN section 4: the three extension modules are git-ignored build products, the repo's own
``setup.py build_ext`` cannot run offline, so the harness drives Cython + setuptools directly.
The build output is cached outside /repo and /verif, keyed by the content hash of every source
file that goes into it, so an edit to a ``.pyx`` / ``.cpp`` / ``.h`` file always triggers a rebuild.
The python sources are imported live from /repo/src.
"""
import hashlib
import os
import shutil
import subprocess
import sys

REPO = os.environ.get('VERIF_REPO', '/repo')
SRC = os.path.join(REPO, 'src')
CORE = os.path.join(SRC, 'TotalDepth', 'LIS', 'core')
GUARD = 'TOTALDEPTH_VERIF'

_EXT_SOURCES = {
    'cRepCode': ['src/cython/cRepCode.pyx'],
    'cFrameSet': ['src/cython/cFrameSet.pyx'],
    'cpRepCode': ['src/cp/cpLISRepCode.cpp', 'src/cpp/LISRepCode.cpp'],
}
_HASHED = [
    'src/cython/cRepCode.pyx', 'src/cython/cFrameSet.pyx',
    'src/cp/cpLISRepCode.cpp', 'src/cp/cpLISRepCode.h',
    'src/cpp/LISRepCode.cpp', 'src/cpp/LISRepCode.h',
]


def _cache_root() -> str:
    for cand in ('/dev/shm', os.environ.get('TMPDIR', ''), '/var/tmp', '/tmp'):
        if cand and os.path.isdir(cand) and os.access(cand, os.W_OK):
            return os.path.join(cand, 'totaldepth-verif-build')
    raise RuntimeError('no writable scratch directory')


def scratch_root() -> str:
    """Root for per-run scratch trees (SimFS)."""
    for cand in ('/dev/shm', os.environ.get('TMPDIR', ''), '/var/tmp', '/tmp'):
        if cand and os.path.isdir(cand) and os.access(cand, os.W_OK):
            return cand
    raise RuntimeError('no writable scratch directory')


def _source_hash() -> str:
    h = hashlib.blake2b(digest_size=10)
    h.update(sys.version.encode())
    for rel in _HASHED:
        p = os.path.join(CORE, rel)
        h.update(rel.encode())
        with open(p, 'rb') as f:
            h.update(f.read())
    return h.hexdigest()


_BUILD_SCRIPT = r'''
import os, sys
from setuptools import Extension
from setuptools.dist import Distribution
from Cython.Build import cythonize
core, out = sys.argv[1], sys.argv[2]
work = os.path.join(out, 'work')
os.makedirs(work, exist_ok=True)
# copy the sources so that no generated file lands in /repo
import shutil
for rel in ('src/cython/cRepCode.pyx', 'src/cython/cFrameSet.pyx', 'src/cp/cpLISRepCode.cpp',
            'src/cp/cpLISRepCode.h', 'src/cpp/LISRepCode.cpp', 'src/cpp/LISRepCode.h'):
    dst = os.path.join(work, rel)
    os.makedirs(os.path.dirname(dst), exist_ok=True)
    shutil.copyfile(os.path.join(core, rel), dst)
os.chdir(work)
exts = [
    Extension('cRepCode', sources=['src/cython/cRepCode.pyx']),
    Extension('cFrameSet', sources=['src/cython/cFrameSet.pyx']),
    Extension('cpRepCode', sources=['src/cp/cpLISRepCode.cpp', 'src/cpp/LISRepCode.cpp'],
              extra_compile_args=['-Isrc/cp', '-Isrc/cpp', '-std=c++14']),
]
exts = cythonize(exts, quiet=True, language_level=3)
dist = Distribution({'name': 'tdext', 'ext_modules': exts})
cmd = dist.get_command_obj('build_ext')
cmd.build_lib = os.path.join(out, 'lib')
cmd.build_temp = os.path.join(out, 'tmp')
cmd.parallel = 3
cmd.ensure_finalized()
cmd.run()
'''


def build_extensions(verbose: bool = False) -> str:
    """Returns the directory holding the freshly built (or cached, same sources) ``.so`` files."""
    root = _cache_root()
    key = _source_hash()
    final = os.path.join(root, key)
    lib = os.path.join(final, 'lib')
    if os.path.isdir(lib) and len([f for f in os.listdir(lib) if f.endswith('.so')]) == 3:
        return lib
    os.makedirs(root, exist_ok=True)
    tmp = os.path.join(root, f'{key}.tmp.{os.getpid()}')
    shutil.rmtree(tmp, ignore_errors=True)
    os.makedirs(tmp)
    env = dict(os.environ)
    env.setdefault('PIP_NO_INDEX', '1')
    proc = subprocess.run([sys.executable, '-c', _BUILD_SCRIPT, CORE, tmp], env=env,
                          stdout=subprocess.PIPE, stderr=subprocess.STDOUT, text=True)
    if proc.returncode != 0:
        shutil.rmtree(tmp, ignore_errors=True)
        raise RuntimeError('extension build failed:\n' + proc.stdout[-4000:])
    if verbose:
        print(proc.stdout[-2000:])
    shutil.rmtree(os.path.join(tmp, 'work'), ignore_errors=True)
    shutil.rmtree(os.path.join(tmp, 'tmp'), ignore_errors=True)
    try:
        os.rename(tmp, final)
    except OSError:
        # somebody else won the race
        shutil.rmtree(tmp, ignore_errors=True)
    # prune old builds (keep this one)
    for name in os.listdir(root):
        if name != key and not name.startswith(key):
            p = os.path.join(root, name)
            try:
                if os.path.getmtime(p) < os.path.getmtime(final) - 3600:
                    shutil.rmtree(p, ignore_errors=True)
            except OSError:
                pass
    return lib


_done = False


def ensure_build() -> None:
    """Make ``import TotalDepth`` resolve to /repo/src with extensions built from the working tree.
    Also sets the hook guard (no hook exists in /repo at present; reserved)."""
    global _done
    if _done:
        return
    os.environ[GUARD] = '1'
    lib = build_extensions()
    if SRC in sys.path:
        sys.path.remove(SRC)
    sys.path.insert(0, SRC)
    for name in list(sys.modules):
        if name == 'TotalDepth' or name.startswith('TotalDepth.'):
            raise RuntimeError('TotalDepth imported before ensure_build()')
    import TotalDepth.LIS.core as core  # noqa
    if not os.path.abspath(core.__file__).startswith(os.path.abspath(SRC)):
        raise RuntimeError(f'TotalDepth resolved to {core.__file__}, expected under {SRC}')
    core.__path__.insert(0, lib)
    import TotalDepth.LIS.core.cRepCode as c  # noqa
    if not os.path.abspath(c.__file__).startswith(os.path.abspath(lib)):
        raise RuntimeError(f'cRepCode resolved to {c.__file__}, expected under {lib}')
    _done = True


# ------------------------------------------------------------------------------------------------
LOCALE_NAME = 'de_DE'


def ensure_locale():
    """A minimal non-English locale for the simulated machine (scenario env 'lc_time'): month and day names that are not the
    English ones.  Compiled once with localedef(1) into the build cache; returns the directory to put into LOCPATH, or None
    when localedef is not available (the dimension is then simply not exercised, and the evidence says so)."""
    import shutil
    import subprocess
    root = os.path.join(_cache_root(), 'locale')
    if os.path.isfile(os.path.join(root, LOCALE_NAME, 'LC_TIME')):
        return root
    if not shutil.which('localedef'):
        return None
    os.makedirs(root, exist_ok=True)

    def u(text):
        return ''.join('<U%04X>' % ord(c) for c in text)

    def lst(items):
        return ';'.join('"%s"' % u(i) for i in items)
    charmap = ['<code_set_name> ASCII7', '<comment_char> %', '<escape_char> /', '<mb_cur_min> 1', '<mb_cur_max> 1', 'CHARMAP']
    charmap += ['<U%04X> /x%02x' % (c, c) for c in range(128)] + ['END CHARMAP']
    with open(os.path.join(root, 'ASCII7'), 'w') as f:
        f.write('\n'.join(charmap) + '\n')
    abmon = ['Gen', 'Fev', 'Mrz', 'Avr', 'Mai', 'Jun', 'Jui', 'Aou', 'Set', 'Okt', 'Nov', 'Dez']
    mon = [m + 'uarius' for m in abmon]
    abday = ['So', 'Mo', 'Di', 'Mi', 'Do', 'Fr', 'Sa']
    day = [d + 'tag' for d in abday]
    src = '\n'.join([
        'comment_char %', 'escape_char /',
        'LC_IDENTIFICATION', 'title "verif: minimal non-English LC_TIME"', 'END LC_IDENTIFICATION',
        'LC_CTYPE', 'upper <U0041>;<U0042>', 'lower <U0061>;<U0062>', 'END LC_CTYPE',
        'LC_COLLATE', 'order_start forward', 'UNDEFINED', 'order_end', 'END LC_COLLATE',
        'LC_TIME', 'abday ' + lst(abday), 'day ' + lst(day), 'abmon ' + lst(abmon), 'mon ' + lst(mon),
        'd_t_fmt "%s"' % u('%a %d %b %Y %T'), 'd_fmt "%s"' % u('%d.%m.%Y'), 't_fmt "%s"' % u('%T'), 'am_pm "";""', 't_fmt_ampm ""',
        'END LC_TIME', ''])
    with open(os.path.join(root, 'src'), 'w') as f:
        f.write(src)
    subprocess.run(['localedef', '-c', '-i', os.path.join(root, 'src'), '-f', os.path.join(root, 'ASCII7'), os.path.join(root, LOCALE_NAME)],
                   stdout=subprocess.DEVNULL, stderr=subprocess.DEVNULL)
    return root if os.path.isfile(os.path.join(root, LOCALE_NAME, 'LC_TIME')) else None
