"""One integer decides everything (DESIGN 2.1).

Every random decision in a run is drawn from an ``Rng`` created from
``derive(VERIF_SEED, property, run_index)``.  Nothing here touches ``hash()``, a clock or the
global ``random`` state.
"""
import hashlib
import os
import random


def base_seed() -> int:
    try:
        return int(os.environ.get('VERIF_SEED', '0'))
    except ValueError:
        return 0


def derive(*parts) -> int:
    """A 64 bit integer derived from the parts, stable across interpreters and hash seeds."""
    text = ':'.join(str(p) for p in parts).encode('utf8')
    return int.from_bytes(hashlib.blake2b(text, digest_size=8).digest(), 'big')


class Rng(random.Random):
    """``random.Random`` with a few helpers.  Seeded from an int only (never from a str/bytes,
    whose seeding goes through ``hash`` for some versions)."""

    def __init__(self, seed: int):
        super().__init__(int(seed))

    def chance(self, p: float) -> bool:
        return self.random() < p

    def pick(self, seq):
        return seq[self.randrange(len(seq))]

    def wpick(self, pairs):
        """pairs: sequence of (weight, value)."""
        total = sum(w for w, _ in pairs)
        x = self.random() * total
        acc = 0.0
        for w, v in pairs:
            acc += w
            if x < acc:
                return v
        return pairs[-1][1]

    def small(self, lo: int, hi: int) -> int:
        """An int in [lo, hi] biased towards lo (geometric-ish)."""
        if hi <= lo:
            return lo
        span = hi - lo
        r = self.random()
        return lo + min(span, int(span * r * r * r + 0.5 * self.random()))

    def rbytes(self, n: int) -> bytes:
        return bytes(self.getrandbits(8) for _ in range(n)) if n < 64 else self.getrandbits(8 * n).to_bytes(n, 'big')

    def fork(self, *label) -> 'Rng':
        return Rng(derive(self.getrandbits(64), *label))


def digest(obj) -> str:
    """Digest of a JSON-serialisable object (canonical form)."""
    import json
    return hashlib.blake2b(json.dumps(obj, sort_keys=True, separators=(',', ':'), default=_default).encode('utf8'),
                           digest_size=12).hexdigest()


def _default(o):
    if isinstance(o, (bytes, bytearray)):
        return {'$b': bytes(o).hex()}
    if isinstance(o, (set, frozenset)):
        return sorted(o)
    raise TypeError(f'not JSON serialisable: {type(o)}')
