"""Known findings (DESIGN section 3).  ``known_findings.json`` is committed and never written at run
time.  An entry matches a violation when the property and violation class are equal and every
key of the entry's ``facts`` is present in the violation's facts with an equal value (or, when the
entry's value is a list, with a value contained in it).  ``status: fixed`` entries match nothing.
"""
import json
import os

_PATH = os.path.join(os.path.dirname(os.path.dirname(os.path.abspath(__file__))), 'known_findings.json')
_cache = None


def load():
    global _cache
    if _cache is None:
        try:
            with open(_PATH) as f:
                _cache = json.load(f)
        except FileNotFoundError:
            _cache = {'findings': [], 'fixed': []}
    return _cache


def match(prop, violation):
    for entry in load().get('findings', []):
        if entry.get('status', 'open') != 'open' or entry['property'] != prop:
            continue
        cls = entry['cls']
        if violation['cls'] not in (cls if isinstance(cls, list) else [cls]):
            continue
        facts = violation.get('facts', {})
        ok = True
        for k, want in entry.get('facts', {}).items():
            have = facts.get(k, None)
            if isinstance(want, list):
                if have not in want:
                    ok = False
            elif have != want:
                ok = False
            if not ok:
                break
        if ok:
            return entry
    return None
