"""SimPool, SimFS interception and SimClock (DESIGN 2.5).

``SimPool`` stands in for ``multiprocessing.Pool`` as ``WriteLAS`` uses it (fork start method,
``apply_async`` + ``get``): it forks real worker processes which keep their private module state
from one task to the next, ships arguments and results pickled over pipes, and parks every worker
at each intercepted file-system call.  Exactly one worker runs at any instant; the scheduler's
choice among {give the queue head to idle worker w} + {resume parked worker w} *is* the schedule.
The schedule is an explicit list of choice indices (taken modulo the number of enabled actions),
or a named policy; the choices actually made are recorded so any run can be replayed exactly.
"""
import builtins
import datetime as _real_datetime
import os
import pickle
import select
import struct
import sys
import time as _real_time
import traceback

from .budget import StepBudget, BudgetExceeded

WALL_TIMEOUT_S = 90.0


class SimPoolHarnessError(Exception):
    """Wall-clock safety net or protocol failure: harness error, never a verdict."""


class WorkerDied(BaseException):
    """A pool worker process died; the real pool would hang in get() for ever."""


class TaskBudgetExceeded(BaseException):
    """A task exceeded its deterministic step budget."""


# ------------------------------------------------------------------------------------------------
# framed pickles over pipes
def _send(fd, obj):
    data = pickle.dumps(obj, protocol=4)
    data = struct.pack('>I', len(data)) + data
    view = memoryview(data)
    while view:
        n = os.write(fd, view)
        view = view[n:]


def _recv_exact(fd, n, deadline):
    chunks = []
    while n > 0:
        if deadline is not None:
            left = deadline - _real_time.monotonic()
            if left <= 0:
                raise SimPoolHarnessError('wall-clock safety net while waiting for a simulated worker')
            r, _, _ = select.select([fd], [], [], min(left, 5.0))
            if not r:
                continue
        by = os.read(fd, n)
        if not by:
            raise EOFError
        chunks.append(by)
        n -= len(by)
    return b''.join(chunks)


def _recv(fd, timeout=None):
    deadline = None if timeout is None else _real_time.monotonic() + timeout
    head = _recv_exact(fd, 4, deadline)
    return pickle.loads(_recv_exact(fd, struct.unpack('>I', head)[0], deadline))


# ------------------------------------------------------------------------------------------------
class SimClock:
    """Deterministic wall clock and performance counter, per process (worker)."""

    def __init__(self, base_s=0.0, skews=None, delta_s=0.25, jumps=None):
        self.base = float(base_s)
        self.skews = list(skews or [0.0])
        self.delta = float(delta_s)
        self.jumps = dict(jumps or {})   # {call number: seconds}
        self.worker = 0
        self.calls = 0
        self.perf_calls = 0
        self.sim_elapsed = 0.0

    def set_worker(self, w):
        self.worker = w
        self.calls = 0
        self.perf_calls = 0

    def now(self):
        self.calls += 1
        jump = sum(v for k, v in self.jumps.items() if int(k) <= self.calls)
        skew = self.skews[self.worker % len(self.skews)]
        off = self.base + skew + self.calls * self.delta + jump
        self.sim_elapsed = max(self.sim_elapsed, self.calls * self.delta)
        return _real_datetime.datetime(2021, 3, 4, 5, 6, 7) + _real_datetime.timedelta(seconds=off)

    def perf_counter(self):
        self.perf_calls += 1
        return 1000.0 * (self.worker + 1) + self.perf_calls * 0.125


class _DatetimeShim:
    """Module-like stand-in for ``datetime`` inside WriteLAS: only ``datetime.utcnow`` / ``now`` change."""

    def __init__(self, clock):
        class _DT(_real_datetime.datetime):
            @classmethod
            def utcnow(cls):
                t = clock.now()
                return cls(t.year, t.month, t.day, t.hour, t.minute, t.second, t.microsecond)

            @classmethod
            def now(cls, tz=None):
                return cls.utcnow()
        self.datetime = _DT

    def __getattr__(self, name):
        return getattr(_real_datetime, name)


class _TimeShim:
    def __init__(self, clock):
        self._clock = clock

    def perf_counter(self):
        return self._clock.perf_counter()

    def __getattr__(self, name):
        return getattr(_real_time, name)


# ------------------------------------------------------------------------------------------------
class _WFile:
    """Proxy for a file opened for writing under the scratch tree: close() is a scheduling point."""

    def __init__(self, f, fs, rel):
        self.__dict__['_f'] = f
        self.__dict__['_fs'] = fs
        self.__dict__['_rel'] = rel
        self.__dict__['_closed_once'] = False

    def __getattr__(self, name):
        return getattr(self._f, name)

    def __setattr__(self, name, value):
        setattr(self._f, name, value)

    def __iter__(self):
        return iter(self._f)

    def close(self):
        if not self._closed_once:
            self.__dict__['_closed_once'] = True
            self._fs.call('close', self._rel)
        return self._f.close()

    def __enter__(self):
        self._f.__enter__()
        return self

    def __exit__(self, *exc):
        self.close()
        return False


class SimFS:
    """Interception of the file-system calls the batch tools make.  Calls on paths under ``root`` are
    logged (sequence number, worker, task, op, relative path) and, inside a SimPool worker, are
    scheduling points.  Real files on a tmpfs keep Python's own text/buffering semantics intact."""

    def __init__(self, root):
        self.root = os.path.realpath(root)
        self.log = []
        self.hook = None         # set inside a pool worker: hook(op, rel) blocks until scheduled
        self.worker = 0
        self.task = None
        self._orig = None

    def rel(self, path):
        try:
            p = os.fspath(path)
        except TypeError:
            return None
        if not isinstance(p, str):
            return None
        p = os.path.abspath(p)
        if p == self.root or p.startswith(self.root + os.sep):
            return os.path.relpath(p, self.root)
        return None

    def call(self, op, rel):
        if self.hook is not None:
            self.hook(op, rel)
        else:
            self.log.append((len(self.log), self.worker, self.task, op, rel))

    def install(self):
        assert self._orig is None
        fs = self
        o_open, o_makedirs, o_listdir, o_getsize = builtins.open, os.makedirs, os.listdir, os.path.getsize
        self._orig = (o_open, o_makedirs, o_listdir, o_getsize)

        def sim_open(file, mode='r', *a, **kw):
            rel = fs.rel(file) if not isinstance(file, int) else None
            if rel is None:
                return o_open(file, mode, *a, **kw)
            writing = any(c in mode for c in 'wax+')
            fs.call('open-w' if writing else 'open-r', rel)
            f = o_open(file, mode, *a, **kw)
            return _WFile(f, fs, rel) if writing else f

        def sim_makedirs(name, *a, **kw):
            rel = fs.rel(name)
            if rel is not None:
                fs.call('makedirs', rel)
            return o_makedirs(name, *a, **kw)

        def sim_listdir(path='.'):
            rel = fs.rel(path)
            if rel is not None:
                fs.call('listdir', rel)
            return o_listdir(path)

        def sim_getsize(path):
            rel = fs.rel(path)
            if rel is not None:
                fs.call('getsize', rel)
            return o_getsize(path)

        o_rename, o_replace, o_remove, o_unlink, o_mkdir = os.rename, os.replace, os.remove, os.unlink, os.mkdir
        self._orig2 = (o_rename, o_replace, o_remove, o_unlink, o_mkdir)

        def wrap2(orig, op):
            def f(src, *a, **kw):
                rel = fs.rel(src)
                if rel is not None:
                    fs.call(op, rel)
                return orig(src, *a, **kw)
            return f

        builtins.open = sim_open
        os.makedirs = sim_makedirs
        os.listdir = sim_listdir
        os.path.getsize = sim_getsize
        os.rename, os.replace = wrap2(o_rename, 'rename'), wrap2(o_replace, 'rename')
        os.remove, os.unlink = wrap2(o_remove, 'remove'), wrap2(o_unlink, 'remove')
        os.mkdir = wrap2(o_mkdir, 'mkdir')

    def uninstall(self):
        if self._orig is not None:
            builtins.open, os.makedirs, os.listdir, os.path.getsize = self._orig
            os.rename, os.replace, os.remove, os.unlink, os.mkdir = self._orig2
            self._orig = None


# ------------------------------------------------------------------------------------------------
class _AsyncResult:
    def __init__(self, pool, tid):
        self._pool = pool
        self._tid = tid

    def ready(self):
        return self._tid in self._pool._done

    def get(self, timeout=None):
        return self._pool._get(self._tid)


class SimPool:
    """See module docstring.  ``sim`` carries: fs (SimFS), clock (SimClock), schedule (list of ints or
    policy name), step_budget (per task, or None), trace (list appended to), choices (list appended to)."""

    def __init__(self, processes, sim):
        self.sim = sim
        self.n = int(processes)
        if self.n < 1:
            raise ValueError('Number of processes must be at least 1')
        self._queue = []          # task ids waiting
        self._tasks = {}          # tid -> (fn, args)
        self._done = {}           # tid -> ('ok', value) | ('exc', exc) | ('budget', text)
        self._state = {}          # w -> 'idle' | ('parked', tid) | 'dead'
        self._running = {}        # w -> tid
        self._pipes = {}          # w -> (cmd_w, evt_r, pid)
        self._next_tid = 0
        self._step = 0
        self.tasks_per_worker = {}
        sys.stdout.flush()
        sys.stderr.flush()
        for w in range(self.n):
            cmd_r, cmd_w = os.pipe()
            evt_r, evt_w = os.pipe()
            pid = os.fork()
            if pid == 0:
                try:
                    os.close(cmd_w)
                    os.close(evt_r)
                    for (cw, er, _) in self._pipes.values():
                        os.close(cw)
                        os.close(er)
                    self._worker_main(w, cmd_r, evt_w)
                finally:
                    os._exit(0)
            os.close(cmd_r)
            os.close(evt_w)
            self._pipes[w] = (cmd_w, evt_r, pid)
            self._state[w] = 'idle'
            self.tasks_per_worker[w] = 0

    # ---- worker side ----------------------------------------------------------------------------
    def _worker_main(self, w, cmd_r, evt_w):
        sim = self.sim
        fs = sim['fs']
        fs.worker = w
        sim['clock'].set_worker(w)

        def hook(op, rel):
            _send(evt_w, ('yield', fs.task, op, rel))
            msg = _recv(cmd_r)
            if msg[0] != 'go':
                os._exit(0)
        fs.hook = hook
        while True:
            try:
                msg = _recv(cmd_r)
            except EOFError:
                return
            if msg[0] == 'exit':
                return
            _, tid, fn, args = msg
            fs.task = tid
            budget = sim.get('step_budget')
            steps = 0
            try:
                if budget:
                    sb = StepBudget(budget)
                    try:
                        with sb:
                            value = fn(*args)
                    finally:
                        steps = sb.count
                else:
                    value = fn(*args)
                out = ('done', tid, 'ok', value, steps)
            except BudgetExceeded as err:
                out = ('done', tid, 'budget', str(err), steps)
            except BaseException as err:  # the real pool ships any exception back to get()
                try:
                    pickle.dumps(err)
                    out = ('done', tid, 'exc', err, steps)
                except Exception:
                    out = ('done', tid, 'exc', RuntimeError(f'{type(err).__name__}: {err}'), steps)
                sim_tb = traceback.format_exc()
                out = out + (sim_tb[-1500:],)
            fs.task = None
            try:
                _send(evt_w, out)
            except Exception:
                _send(evt_w, ('done', tid, 'exc', RuntimeError('unpicklable result'), steps))

    # ---- scheduler side -------------------------------------------------------------------------
    def apply_async(self, fn, args=(), kwds=None):
        tid = self._next_tid
        self._next_tid += 1
        self._tasks[tid] = (fn, tuple(args))
        self._queue.append(tid)
        return _AsyncResult(self, tid)

    def _enabled(self):
        acts = []
        for w in range(self.n):
            st = self._state[w]
            if st == 'idle' and self._queue:
                acts.append(('assign', w))
            elif isinstance(st, tuple):
                acts.append(('resume', w))
        return acts

    def _choose(self, acts):
        sched = self.sim.get('schedule', 'fifo')
        k = self._step
        if isinstance(sched, list):
            c = sched[k] % len(acts) if k < len(sched) else 0
        elif sched == 'fifo':
            c = 0
        elif sched == 'lifo':
            c = len(acts) - 1
        elif sched == 'rr':
            c = k % len(acts)
        elif sched == 'finish-first':
            # always resume a parked worker before assigning new work (lowest worker first)
            c = next((i for i, a in enumerate(acts) if a[0] == 'resume'), 0)
        elif sched == 'assign-first':
            c = next((i for i, a in enumerate(acts) if a[0] == 'assign'), 0)
        else:
            raise SimPoolHarnessError(f'unknown schedule policy {sched}')
        return c

    def _advance(self):
        acts = self._enabled()
        if not acts:
            raise SimPoolHarnessError('scheduler has no enabled action but a result is awaited')
        c = self._choose(acts)
        self.sim['choices'].append(c)
        self._step += 1
        kind, w = acts[c]
        cmd_w, evt_r, pid = self._pipes[w]
        if kind == 'assign':
            tid = self._queue.pop(0)
            fn, args = self._tasks[tid]
            self._running[w] = tid
            self.tasks_per_worker[w] += 1
            self.sim['trace'].append((self._step, w, tid, 'assign', None))
            _send(cmd_w, ('task', tid, fn, args))
        else:
            tid = self._state[w][1]
            _send(cmd_w, ('go',))
        try:
            msg = _recv(evt_r, timeout=WALL_TIMEOUT_S)
        except EOFError:
            self._state[w] = 'dead'
            self.sim['trace'].append((self._step, w, tid, 'died', None))
            raise WorkerDied(f'worker {w} died while running task {tid}')
        if msg[0] == 'yield':
            self._state[w] = ('parked', tid)
            self.sim['trace'].append((self._step, w, tid, msg[2], msg[3]))
        else:
            self._state[w] = 'idle'
            self._running.pop(w, None)
            self._done[msg[1]] = msg[2:]
            self.sim['trace'].append((self._step, w, tid, 'done:' + msg[2], None))
            self.sim.setdefault('task_steps', {})[msg[1]] = msg[4]

    def _get(self, tid):
        while tid not in self._done:
            self._advance()
        res = self._done[tid]
        if res[0] == 'ok':
            return res[1]
        if res[0] == 'budget':
            raise TaskBudgetExceeded(res[1])
        self.sim.setdefault('task_tracebacks', {})[tid] = res[3] if len(res) > 3 else ''
        raise res[1]

    def drain(self):
        """Run every queued/parked task to completion (the code under test never closes its pool)."""
        while self._queue or any(isinstance(s, tuple) for s in self._state.values()):
            self._advance()

    def terminate(self):
        for w, (cmd_w, evt_r, pid) in self._pipes.items():
            try:
                os.close(cmd_w)
            except OSError:
                pass
        for w, (cmd_w, evt_r, pid) in self._pipes.items():
            try:
                os.kill(pid, 9)
            except OSError:
                pass
            try:
                os.waitpid(pid, 0)
            except OSError:
                pass
            try:
                os.close(evt_r)
            except OSError:
                pass
        self._pipes = {}

    close = terminate

    def join(self):
        pass

    def __enter__(self):
        return self

    def __exit__(self, *exc):
        self.terminate()
        return False


class MultiprocessingShim:
    """Stand-in for the ``multiprocessing`` module attribute of ``WriteLAS``."""

    def __init__(self, sim):
        self.sim = sim
        self.pools = []

    def Pool(self, processes=None, *a, **kw):
        pool = SimPool(processes if processes else self.cpu_count(), self.sim)
        self.pools.append(pool)
        return pool

    def cpu_count(self):
        return 16

    def terminate_all(self):
        for p in self.pools:
            p.terminate()
