"""SimFile: the simulated disk under every reader (DESIGN 2.2).

An in-memory binary file that records every access with the simulator's global event sequence
number, so that "which bytes did operation k touch" is a join on sequence numbers.
"""
import io


class EventClock:
    """Global event sequence counter of one simulated run."""

    def __init__(self):
        self.seq = 0

    def tick(self) -> int:
        self.seq += 1
        return self.seq


class SimFile(io.BufferedIOBase):
    """In-memory file with an access log.

    Subclasses ``io.BufferedIOBase`` so that ``RP66V1.core.pFile.FileRead`` accepts it.
    ``read(n)`` returns ``n`` bytes unless EOF is reached (the buffered-file contract the library
    is written against); ``seek`` beyond EOF succeeds.
    """

    def __init__(self, data: bytes = b'', clock: EventClock = None, name: str = '<sim>', writable: bool = False,
                 log: bool = True, foreign_fileno: bool = False, mode_attr=None):
        super().__init__()
        #: ``mode_attr``: binary file objects differ in what their ``mode`` attribute says: open(..., 'rb') -> 'rb', io.BytesIO has
        #: none, zipfile members say 'r', gzip.GzipFile has an integer there.  None = no attribute.
        if mode_attr is not None:
            self.mode = mode_attr
        #: ``foreign_fileno``: like gzip.GzipFile or a stream wrapped around a device, the object HAS a file descriptor, but
        #: the descriptor is not the byte stream that read() delivers (here: an anonymous 64 byte file)
        self._fd = None
        if foreign_fileno:
            import os
            self._fd = os.memfd_create('verif-foreign')
            os.write(self._fd, b'\x1f\x8b' + b'\x00' * 62)
        self._data = bytearray(data)
        self._pos = 0
        self.clock = clock or EventClock()
        self.name = name
        self._writable = writable
        self.log_enabled = log
        #: list of (seq, op, pos, requested, returned)
        self.log = []
        self.closed_count = 0

    # --- helpers for the harness -------------------------------------------------------
    def set_content(self, data: bytes) -> None:
        """The stored bytes are replaced (same file object, new content) and the cursor rewound."""
        self._data = bytearray(data)
        self._pos = 0

    def getvalue(self) -> bytes:
        return bytes(self._data)

    def reads_between(self, seq_lo: int, seq_hi: int):
        """[(pos, n)] of the read calls with seq_lo < seq <= seq_hi that returned at least one byte."""
        return [(e[2], e[4]) for e in self.log if e[1] == 'read' and seq_lo < e[0] <= seq_hi and e[4] > 0]

    def _rec(self, op, pos, req, ret):
        if self.log_enabled:
            self.log.append((self.clock.tick(), op, pos, req, ret))

    # --- io API ------------------------------------------------------------------------
    def readable(self):
        return True

    def writable(self):
        return self._writable

    def seekable(self):
        return True

    def read(self, size=-1):
        if size is None or size < 0:
            size = max(0, len(self._data) - self._pos)
        pos = self._pos
        by = bytes(self._data[pos:pos + size])
        self._pos = pos + len(by)
        self._rec('read', pos, size, len(by))
        return by

    def read1(self, size=-1):
        return self.read(size)

    def readinto(self, b):
        by = self.read(len(b))
        b[:len(by)] = by
        return len(by)

    def readline(self, size=-1):
        pos = self._pos
        end = self._data.find(b'\n', pos)
        end = len(self._data) if end < 0 else end + 1
        if size is not None and size >= 0:
            end = min(end, pos + size)
        by = bytes(self._data[pos:end])
        self._pos = end
        self._rec('read', pos, size, len(by))
        return by

    def write(self, by):
        if not self._writable:
            raise io.UnsupportedOperation('not writable')
        by = bytes(by)
        pos = self._pos
        if pos > len(self._data):
            self._data.extend(b'\x00' * (pos - len(self._data)))
        self._data[pos:pos + len(by)] = by
        self._pos = pos + len(by)
        self._rec('write', pos, len(by), len(by))
        return len(by)

    def seek(self, offset, whence=0):
        if whence == 0:
            new = offset
        elif whence == 1:
            new = self._pos + offset
        elif whence == 2:
            new = len(self._data) + offset
        else:
            raise ValueError(f'invalid whence {whence}')
        if new < 0:
            raise ValueError(f'negative seek position {new}')
        self._rec('seek', self._pos, offset, new)
        self._pos = new
        return new

    def tell(self):
        return self._pos

    def truncate(self, size=None):
        if size is None:
            size = self._pos
        del self._data[size:]
        return size

    def flush(self):
        pass

    def close(self):
        # Survives close(): the harness wants to inspect the bytes written.
        self.closed_count += 1
        self._rec('close', self._pos, 0, 0)

    @property
    def closed(self):
        return False

    def fileno(self):
        if self._fd is not None:
            return self._fd
        raise io.UnsupportedOperation('SimFile has no file descriptor')

    def isatty(self):
        return False

    def __enter__(self):
        return self

    def __exit__(self, *a):
        self.close()
        return False


def merge_intervals(iv):
    """iv: iterable of (start, length) -> sorted, merged list of [start, end)."""
    out = []
    for s, n in sorted(iv):
        e = s + n
        if out and s <= out[-1][1]:
            out[-1][1] = max(out[-1][1], e)
        else:
            out.append([s, e])
    return out


def contained(reads, allowed) -> list:
    """Returns the list of (pos, n) reads that are not wholly inside the union of ``allowed``
    [(start, end)] half-open extents."""
    al = merge_intervals((s, e - s) for s, e in allowed)
    bad = []
    for pos, n in reads:
        ok = False
        for s, e in al:
            if s <= pos and pos + n <= e:
                ok = True
                break
        if not ok:
            bad.append((pos, n))
    return bad
