"""Deterministic simulation kernel for the TotalDepth checks (see /verif/DESIGN.md section 2)."""
