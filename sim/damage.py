"""Stored-byte fault injector (DESIGN 2.6).  Faults are explicit JSON lists so a scenario replays
without a PRNG: ['truncate', k], ['zero_block', pos, n], ['bitflip', pos, bit], ['overwrite', pos, hex],
['dup_block', pos, n], ['swap_blocks', p1, p2, n], ['append', hex], ['empty'], ['foreign', kind, seed, size],
['stretch', pos, n, total] (the n bytes at pos repeated cyclically to total bytes: a token written with far more characters).
Positions are drawn half uniformly, half from the producer's layout map (every header, marker and
length field, and their boundaries +-1): faults while nothing is in flight test nothing."""
from . import seeds

KINDS = ['truncate', 'zero_block', 'bitflip', 'overwrite', 'dup_block', 'swap_blocks', 'append', 'empty', 'foreign', 'header_damage', 'value_damage',
         'value_damage', 'shorten_record', 'length_damage']


def apply(by: bytes, fault) -> bytes:
    kind = fault[0]
    n = len(by)
    if kind == 'truncate':
        return by[:max(0, min(n, fault[1]))]
    if kind == 'zero_block':
        p, k = min(fault[1], n), fault[2]
        return by[:p] + b'\x00' * min(k, n - p) + by[p + k:]
    if kind == 'bitflip':
        if n == 0:
            return by
        p = fault[1] % n
        b = bytearray(by)
        b[p] ^= 1 << (fault[2] % 8)
        return bytes(b)
    if kind == 'overwrite':
        p = min(fault[1], n)
        patch = bytes.fromhex(fault[2])
        patch = patch[:max(0, n - p)]
        return by[:p] + patch + by[p + len(patch):]
    if kind == 'dup_block':
        p, k = min(fault[1], n), fault[2]
        return by[:p + k] + by[p:p + k] + by[p + k:]
    if kind == 'swap_blocks':
        p1, p2, k = fault[1], fault[2], fault[3]
        if p1 > p2:
            p1, p2 = p2, p1
        if p1 + k > p2 or p2 + k > n:
            return by
        return by[:p1] + by[p2:p2 + k] + by[p1 + k:p2] + by[p1:p1 + k] + by[p2 + k:]
    if kind == 'stretch':
        p, k, total = min(fault[1], n), fault[2], fault[3]
        tok = by[p:p + k]
        if not tok:
            return by
        return by[:p] + (tok * (total // len(tok) + 1))[:total] + by[p + k:]
    if kind == 'append':
        return by + bytes.fromhex(fault[1])
    if kind == 'empty':
        return b''
    if kind == 'foreign':
        from worlds import foreign
        return foreign.content(fault[1], fault[2], fault[3])
    raise ValueError(f'unknown fault {fault}')


def apply_all(by: bytes, faults) -> bytes:
    for f in faults:
        by = apply(by, f)
    return by


def position(rng, n, fields):
    """A byte position: half uniform, half at a structural field (start, end, +-1)."""
    if n <= 0:
        return 0
    if fields and rng.chance(0.5):
        pos, ln, _ = rng.pick(fields)
        p = rng.pick([pos, pos + ln, pos - 1, pos + 1, pos + ln - 1, pos + ln + 1, pos + rng.randrange(max(1, ln))])
        return max(0, min(n - 1, p))
    return rng.randrange(n)


def gen_fault(rng, by_len, fields, kinds=None):
    from worlds import foreign
    kind = rng.pick(kinds or KINDS)
    n = by_len
    if kind == 'truncate':
        return ['truncate', position(rng, n, fields) if n else 0]
    if kind == 'zero_block':
        return ['zero_block', position(rng, n, fields), rng.wpick([(3, rng.randrange(1, 9)), (2, rng.randrange(8, 200)), (1, 512)])]
    if kind == 'bitflip':
        return ['bitflip', position(rng, n, fields), rng.randrange(8)]
    if kind == 'overwrite':
        return ['overwrite', position(rng, n, fields), rng.rbytes(rng.wpick([(3, rng.randrange(1, 5)), (2, rng.randrange(4, 64))])).hex()]
    if kind == 'header_damage':
        return ['overwrite', rng.randrange(0, 128), rng.rbytes(rng.randrange(1, 24)).hex()]
    if kind == 'stretch_token':
        toks = [f for f in fields if f[2].endswith('.token')]
        if not toks:
            return ['bitflip', position(rng, n, fields), rng.randrange(8)]
        pos, ln, _ = rng.pick(toks)
        return ['stretch', pos, ln, rng.pick([26, 32, 40, 64])]
    if kind == 'length_damage':
        # a length field (physical record, segment, visible record) replaced by a boundary value: zero, less than its own header,
        # one more or less than a header, the largest values
        lens = [f for f in fields if f[2] in ('pr.len', 'seg.len', 'vr.len') and f[1] == 2]
        if not lens:
            return ['zero_block', position(rng, n, fields), rng.randrange(1, 9)]
        lf = rng.pick(lens)
        return ['overwrite', lf[0], rng.pick([0, 0, 1, 2, 3, 4, 5, 6, 0xffff, 0x8000, 0x7fff]).to_bytes(2, 'big').hex()]
    if kind == 'char_sub':
        # one character of a key token of a text format replaced by another legal-looking character
        toks = [f for f in fields if f[2].endswith('.token') or f[2].endswith('.header')]
        if not toks:
            return ['bitflip', position(rng, n, fields), rng.randrange(8)]
        pos, ln, _ = rng.pick(toks)
        return ['overwrite', pos + rng.randrange(max(1, min(ln, 12))), bytes([rng.pick(list(b'.:~# -09A\t'))]).hex()]
    if kind == 'shorten_record':
        # the length field of a physical record / segment / visible record is lowered so that the record ends exactly at a
        # structural boundary INSIDE it (in front of or behind a stored value): the record-level twin of truncating the file
        lens = sorted(f for f in fields if f[2] in ('pr.len', 'seg.len', 'vr.len') and f[1] == 2)
        marks = sorted(f for f in fields if f[2].startswith('val'))
        cands = []
        for i, lf in enumerate(lens):
            nxt = next((g[0] for g in lens[i + 1:] if g[2] == lf[2]), n)
            inside = [m for m in marks if lf[0] + 4 < m[0] < nxt]
            if inside:
                cands.append((lf, inside))
        if not cands:
            return ['zero_block', position(rng, n, fields), rng.randrange(1, 9)]
        lf, inside = rng.pick(cands)
        m = rng.pick(inside)
        end = rng.pick([m[0], m[0], m[0] + m[1], m[0] - 1, m[0] + 1])
        return ['overwrite', lf[0], max(0, min(0xffff, end - lf[0])).to_bytes(2, 'big').hex()]
    if kind == 'value_damage':
        # a stored metadata value (dimension, count, representation code, size, units ...) replaced by a boundary value: the
        # record structure stays intact, what the conversion has accepted as its description of the data is wrong
        vals = [f for f in fields if f[2].startswith('val')]
        if not vals:
            return ['zero_block', position(rng, n, fields), rng.randrange(1, 9)]
        # numbers before text, and the description of the data (channels, frames, format specification) before the rest
        pos, ln, name = rng.wpick([((3 if f[2].startswith('val#') else 1) * (3 if ('.CHANNEL.' in f[2] or '.FRAME.' in f[2] or '.DFSR.' in f[2]) else 1), f) for f in vals])
        ln = max(1, min(ln, 8))
        patch = rng.wpick([(6, b'\x00' * ln), (1, b'\xff' * ln), (1, b'\x00' * (ln - 1) + b'\x01'), (1, b'\x00' * (ln - 1) + b'\x02'),
                           (1, b'\x7f' + b'\xff' * (ln - 1)), (1, b'\x80' + b'\x00' * (ln - 1)), (1, rng.rbytes(ln))])
        return ['overwrite', pos, patch.hex()]
    if kind == 'dup_block':
        return ['dup_block', position(rng, n, fields), rng.wpick([(2, rng.randrange(1, 16)), (2, rng.randrange(16, 400))])]
    if kind == 'swap_blocks':
        k = rng.randrange(1, 64)
        return ['swap_blocks', position(rng, n, fields), position(rng, n, fields), k]
    if kind == 'append':
        return ['append', rng.rbytes(rng.wpick([(2, rng.randrange(1, 13)), (1, rng.randrange(12, 300))])).hex()]
    if kind == 'empty':
        return ['empty']
    if kind == 'foreign':
        return ['foreign', rng.pick(foreign.KINDS), rng.getrandbits(32), rng.randrange(0, 4096)]
    raise ValueError(kind)


def fired(original: bytes, damaged: bytes) -> bool:
    return original != damaged
