"""Western Atlas BIT: independent producer and reference reader (DESIGN 2.3).

Layout (from the description in ReadBIT's documentation and the bundled example file): TIF framed
blocks (3 x 32 bit little-endian words: type, previous, next).  A log pass is a 276 byte header block
(4 unknown, 72 ASCII description, 5 binary, 75 ASCII, 8 binary, '>H' channel count, '>H' null, 20 x 4
byte channel names, five IBM single floats: from, to, spacing, 0, 16.0, 8 byte tail), then data blocks
that are channel-major (all values of channel 0 for the block's frames, then channel 1, ...), then a
type 1 marker.  A second type 1 marker ends the file.
"""
import struct

TIF = 12


def ibm_decode(word: int) -> float:
    """IBM System/360 single precision: sign, 7 bit excess-64 base-16 exponent, 24 bit fraction."""
    sign = -1.0 if word & 0x80000000 else 1.0
    exp = (word >> 24) & 0x7f
    frac = word & 0xffffff
    return sign * (frac / 16777216.0) * 16.0 ** (exp - 64)


def ibm_encode(value: float) -> int:
    """Nearest-below normalised IBM single for a finite double (reference encoder, independent)."""
    if value == 0.0:
        return 0
    sign = 0x80000000 if value < 0 else 0
    v = abs(value)
    exp = 64
    while v >= 1.0:
        v /= 16.0
        exp += 1
    while v < 1.0 / 16.0:
        v *= 16.0
        exp -= 1
    frac = int(v * 16777216.0)
    assert 0 <= exp <= 127 and 0x100000 <= frac <= 0xffffff
    return sign | (exp << 24) | frac


def gen_word(rng, kind='normal') -> int:
    """A well-defined IBM word: true zero or a normalised fraction with a moderate exponent."""
    if kind == 'zero' or rng.chance(0.05):
        # true zero, sometimes with the sign bit set (minus zero: equal to zero, printed differently)
        return 0x80000000 if kind != 'zero' and rng.chance(0.4) else 0
    sign = 0x80000000 if rng.chance(0.3) else 0
    exp = rng.wpick([(6, rng.randrange(62, 69)), (2, rng.randrange(58, 72))])
    frac = rng.wpick([(5, rng.randrange(0x100000, 0x1000000)), (1, 0xffffff), (1, 0x100000), (1, rng.randrange(0x10, 0x100) << 16)])
    return sign | (exp << 24) | frac


def header_block(p) -> bytes:
    names = p['channels']
    assert len(names) <= 20 and all(len(n) == 4 for n in names)
    by = bytearray()
    by += bytes.fromhex(p.get('head', '00020000'))
    by += p['desc'].encode('ascii').ljust(72)[:72]
    by += bytes.fromhex(p.get('ua', '000a001800'))
    by += p['ub'].encode('ascii').ljust(75)[:75]
    by += bytes.fromhex(p.get('uc', '0012000b00062020'))
    by += struct.pack('>HH', len(names), 0)
    for n in names:
        by += n.encode('ascii')
    by += b'    ' * (20 - len(names))
    for w in (p['from'], p['to'], p['spacing'], 0, ibm_encode(16.0)):
        by += struct.pack('>L', w)
    by += p.get('tail', 'MN239J 1').encode('ascii')[:8].ljust(8)
    assert len(by) == 276, len(by)
    return bytes(by)


def build(model):
    """Returns (bytes, layout). layout['passes'][i] = {'names', 'values': [[word per frame] per channel], 'x': (from, to, spacing)
    decoded, 'frames'}; layout['fields'] = [(pos, n, name)] structural fields for damage biasing."""
    out = bytearray()
    markers = []
    layout = {'passes': [], 'fields': [], 'blocks': []}

    def block(typ, payload):
        pos = len(out)
        back = markers[-1] if markers else 0
        out.extend(struct.pack('<3L', typ, back, pos + TIF + len(payload)))
        out.extend(payload)
        markers.append(pos)
        layout['fields'].append((pos, 12, 'tif'))
        layout['blocks'].append((pos, TIF + len(payload)))

    for p in model['passes']:
        hb = header_block(p)
        layout['fields'].append((len(out) + 12 + 164, 4, 'bit.count'))
        layout['fields'].append((len(out) + 12 + 168, 80, 'bit.names'))
        layout['fields'].append((len(out) + 12 + 248, 20, 'bit.range'))
        block(0, hb)
        vals = p['values']            # [channel][frame] words
        nch = len(p['channels'])
        nfr = len(vals[0]) if nch else 0
        f = 0
        while f < nfr:
            nb = min(p['block'], nfr - f)
            pay = bytearray()
            for c in range(nch):
                for k in range(f, f + nb):
                    pay += struct.pack('>L', vals[c][k])
            block(0, bytes(pay))
            f += nb
        block(1, b'')
        layout['passes'].append({'names': list(p['channels']), 'values': vals, 'frames': nfr,
                                 'x': (ibm_decode(p['from']), ibm_decode(p['to']), ibm_decode(p['spacing']))})
    block(1, b'')
    return bytes(out), layout


def expected_x(x, frames):
    """X axis: starts at 'from', moves by 'spacing' towards 'to' (reference, in double)."""
    x_from, x_to, sp = x
    step = abs(sp) if x_to > x_from else -abs(sp)
    return [x_from + i * step for i in range(frames)]


class RefError(Exception):
    pass


def ref_read(by: bytes):
    """Independent reader: returns list of passes {'names', 'values' (decoded floats per channel), 'x'}."""
    pos = 0
    passes = []
    cur = None
    prev_type = None
    while True:
        if pos + 12 > len(by):
            raise RefError('file ends without an end-of-file marker')
        typ, back, nxt = struct.unpack('<3L', by[pos:pos + 12])
        if nxt < pos + 12 or nxt > len(by):
            raise RefError(f'bad TIF next {nxt} at {pos}')
        pay = by[pos + 12:nxt]
        if typ == 1:
            if prev_type == 1 or cur is None and prev_type is None:
                break
            if cur is not None:
                passes.append(cur)
                cur = None
        elif cur is None:
            if len(pay) != 276:
                raise RefError(f'header block of {len(pay)} bytes at {pos}')
            n = struct.unpack('>H', pay[164:166])[0]
            if n > 20:
                raise RefError('more than 20 channels')
            names = [pay[168 + 4 * i:172 + 4 * i].decode('ascii') for i in range(n)]
            rng5 = [ibm_decode(struct.unpack('>L', pay[248 + 4 * i:252 + 4 * i])[0]) for i in range(5)]
            cur = {'names': names, 'values': [[] for _ in names], 'x': tuple(rng5[:3]), 'desc': pay[4:76]}
        else:
            n = len(cur['names'])
            if n:
                if len(pay) % (4 * n):
                    raise RefError(f'data block of {len(pay)} bytes for {n} channels at {pos}')
                nf = len(pay) // (4 * n)
                for c in range(n):
                    for k in range(nf):
                        o = 4 * (c * nf + k)
                        cur['values'][c].append(ibm_decode(struct.unpack('>L', pay[o:o + 4])[0]))
        prev_type = typ
        pos = nxt
    return passes


# some names differ only in where their blanks are, or in case: they are different channels
NAMES = ['COND', 'SN  ', 'SP  ', 'GR  ', 'CAL ', 'TEN ', 'SPD ', 'ACQ ', 'AC  ', 'RT  ', 'DEPT', 'TIME', 'RHOB', 'NPHI', 'A   ', '  GR', ' SP ', 'gr  ']


def gen_pass(rng, max_frames=60, names_pool=None, long=False):
    pool = list(names_pool or NAMES)
    nch = rng.wpick([(2, 1), (5, rng.randrange(2, 7)), (2, rng.randrange(5, 13)), (1, 20)])
    if long:
        nch = min(nch, 2)
    rng.shuffle(pool)
    while len(pool) < nch:
        pool.append('C%03d' % len(pool))
    names = pool[:nch]
    frames = rng.wpick([(1, 1), (2, rng.randrange(2, 5)), (5, rng.randrange(min(3, max_frames), max_frames + 1))])
    if long:
        frames = max_frames
    block = rng.wpick([(4, 16), (2, rng.randrange(1, 9)), (2, rng.randrange(1, 40))])
    up = rng.chance(0.5)
    sp = rng.pick([0.25, 0.5, 0.125, 1.0, 0.1, 2.0, 0.0625])
    start = rng.pick([1000.0, 14950.0, 100.5, 12.25, 8000.0, 0.0, 300.0])
    if not up:
        stop = start + sp * (frames - 1)
    else:
        stop = start - sp * (frames - 1)
        if stop < 0:
            start, stop = start + abs(stop) + 10, 10.0
    values = [[gen_word(rng) for _ in range(frames)] for _ in range(nch)]
    desc = rng.pick(['SHELL EXPRO U.K.      24 OCT 84      MANSFIELD/DODDS', 'OCCIDENTAL PETROLEUM', 'TEST WELL 7  RUN 2', ''])
    # the first four bytes of the header block are not interpreted by anybody: they vary, and they take the structural constants
    # of this and the neighbouring formats (276 = 0x114 is the length of this very block) as well as arbitrary values
    head = rng.wpick([(8, '00020000'), (2, rng.rbytes(4).hex()), (1, '0114' + rng.rbytes(2).hex()), (1, '00000114'), (1, 'ffffffff'), (1, '00000000'),
                      (1, '0100' + rng.rbytes(2).hex())])
    return {'desc': desc, 'ub': rng.pick(['T  2 9 / 1 0 - 3', 'WELL 15/17-9', '']), 'channels': names, 'head': head,
            'from': ibm_encode(start), 'to': ibm_encode(stop), 'spacing': ibm_encode(sp), 'block': block, 'values': values}


def gen_model(rng, max_passes=3, max_frames=60, names_pool=None, long=False):
    n = rng.wpick([(5, 1), (3, 2), (1, max_passes)]) if not long else 1
    return {'passes': [gen_pass(rng, max_frames, names_pool, long) for _ in range(n)]}
