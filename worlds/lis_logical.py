"""LIS-79 logical layer: independent producer of logical files on top of the physical producer.

Reel / tape / file headers and trailers, table records (component blocks), a data format
specification record (entry blocks + 40 byte datum specification blocks) and type 0 data records
with a seeded frames-per-record pattern; direct or indirect X.  Written from the LIS-79 record
descriptions; representation code decoders are the standard's definitions (see ``ref_value``).

Model (JSON)::

    {'phys': {'prlen', 'rec', 'file', 'chk', 'tif', 'chunk_seed': int|None},
     'pre': ['reel', 'tape'] (subset, in this order), 'post': bool (file trailer and matching tape/reel trailers),
     'files': [{'name': 'FILE  .001', 'tables': [{'name': 'CONS', 'rows': [[row mnem, [[col mnem, value, units]..]]]}],
                'dfsr': {'updown': 1|255|0, 'indirect': bool, 'spacing': float, 'units': '.1IN', 'xrc': 68|73 (indirect only), 'absent': -999.25,
                         'channels': [{'mnem', 'units', 'rc', 'samples', 'bursts'}]},
                'per_record': [frames in record 0, 1, ...], 'x_words': [X word per record (indirect)],
                'frames': [[[word per value] per channel] per frame]}]}
"""
import math
import struct

from worlds import lis_phys as LP
from sim import seeds

RC_SIZE = {49: 2, 50: 4, 56: 1, 66: 1, 68: 4, 70: 4, 73: 4, 77: 1, 79: 2}
FRAME_CODES = [49, 50, 56, 66, 68, 70, 73, 77, 79]


# ------------------------------------------------------------------------------------------------
# representation codes: reference decode (LIS-79 appendix) and encoders for "nice" values
def ref_value(rc: int, w: int) -> float:
    if rc == 68:
        e = (w >> 23) & 0xff
        m = w & 0x7fffff
        if w & 0x80000000:
            return -((1 << 23) - m) / float(1 << 23) * 2.0 ** (127 - e)
        return m / float(1 << 23) * 2.0 ** (e - 128)
    if rc == 49:
        f = w >> 4
        if f & 0x800:
            f -= 0x1000
        return f / 2048.0 * 2.0 ** (w & 0xf)
    if rc == 50:
        e = (w >> 16) & 0xffff
        if e & 0x8000:
            e -= 0x10000
        f = w & 0xffff
        if f & 0x8000:
            f -= 0x10000
        return math.ldexp(f / 32768.0, e)
    if rc == 70:
        if w & 0x80000000:
            w -= 1 << 32
        return w / 65536.0
    if rc == 73:
        return float(w - (1 << 32) if w & 0x80000000 else w)
    if rc == 79:
        return float(w - (1 << 16) if w & 0x8000 else w)
    if rc == 56:
        return float(w - 256 if w & 0x80 else w)
    if rc in (66, 77):
        return float(w)
    raise ValueError(rc)


def enc68(v: float) -> int:
    if v == 0.0:
        return 0x40000000
    a = abs(v)
    m, e = math.frexp(a)            # a = m * 2**e, 0.5 <= m < 1
    frac = int(round(m * (1 << 23)))
    if frac == 1 << 23:
        frac >>= 1
        e += 1
    assert -128 <= e <= 127
    if v > 0:
        return ((e + 128) << 23) | frac
    return 0x80000000 | ((127 - e) << 23) | (((1 << 23) - frac) & 0x7fffff)


def gen_word(rng, rc, hint=None):
    """A word of the well-defined part of the code (normalised floats, moderate exponents)."""
    if rc == 68:
        v = hint if hint is not None else rng.wpick([(5, round(rng.uniform(-4000, 4000) * 256) / 256.0), (1, 0.0), (1, rng.uniform(-1, 1) * 1e-4), (1, rng.uniform(-1, 1) * 1e7)])
        return enc68(v)
    if rc == 73:
        v = int(hint) if hint is not None else rng.wpick([(5, rng.randrange(-10 ** 6, 10 ** 6)), (1, 0), (1, -(1 << 31)), (1, (1 << 31) - 1)])
        return v & 0xffffffff
    if rc == 79:
        v = int(hint) if hint is not None else rng.wpick([(6, rng.randrange(-32768, 32768)), (1, 0), (1, -32768)])
        return v & 0xffff
    if rc == 56:
        return (int(hint) if hint is not None else rng.randrange(-128, 128)) & 0xff
    if rc in (66, 77):
        return (int(hint) if hint is not None else rng.randrange(0, 256)) & 0xff
    if rc == 70:
        v = hint if hint is not None else round(rng.uniform(-30000, 30000) * 64) / 64.0
        return int(round(v * 65536)) & 0xffffffff
    if rc == 49:
        # 12 bit two's complement fraction (normalised: |f| >= 0.5 unless exponent 0), 4 bit exponent
        if hint is not None:
            a = abs(hint)
            e = 0
            while a >= (1 << e) and e < 15:
                e += 1
            f = int(round(hint / float(1 << e) * 2048))
            f = max(-2048, min(2047, f))
            return ((f & 0xfff) << 4) | e
        f = rng.wpick([(6, rng.pick([1, -1]) * rng.randrange(1024, 2048)), (1, 0), (1, -2048), (1, 2047)])
        return ((f & 0xfff) << 4) | rng.randrange(0, 16)
    if rc == 50:
        if hint is not None:
            if abs(hint) < 0.5:     # negative exponents left out (see DESIGN limits)
                hint = 0.5 if hint >= 0 else -0.5
            m, e = math.frexp(hint)
            f = int(round(m * 32768))
            if f == 32768:
                f, e = 16384, e + 1
            return ((e & 0xffff) << 16) | (f & 0xffff)
        f = rng.wpick([(6, rng.pick([1, -1]) * rng.randrange(16384, 32768)), (1, 0), (1, -32768)])
        e = rng.randrange(0, 15)     # negative exponents left out: see DESIGN limits (from50)
        return ((e & 0xffff) << 16) | (f & 0xffff)
    raise ValueError(rc)


def word_bytes(rc, w):
    return int(w).to_bytes(RC_SIZE[rc], 'big')


# ------------------------------------------------------------------------------------------------
# logical record encoders
def _fix(s, n):
    b = s.encode('ascii') if isinstance(s, str) else s
    return b.ljust(n)[:n]


def file_head_tail(typ, name, cont, prlen):
    return (bytes([typ, 0]) + _fix(name, 10) + b'  ' + _fix('SUBLEV', 6) + _fix('VERS 1.0', 8) + _fix('21/03/04', 8) + b' '
            + _fix(f'{prlen:5d}', 5) + b'  ' + _fix('LO', 2) + b'  ' + _fix(cont, 10))


def reel_tape_head_tail(typ, name, cont):
    return (bytes([typ, 0]) + _fix('SERVCE', 6) + b' ' * 6 + _fix('21/03/04', 8) + b'  ' + _fix('ORIG', 4) + b'  ' + _fix(name, 8) + b'  '
            + _fix('01', 2) + b'  ' + _fix(cont, 8) + b'  ' + _fix('generated by the verification producer', 74))


def component_block(typ, rc, mnem, units, value):
    if rc == 65:
        val = value.encode('ascii') if isinstance(value, str) else value
    elif rc == 68:
        val = struct.pack('>L', enc68(value))
    elif rc == 73:
        val = struct.pack('>l', value)
    elif rc == 79:
        val = struct.pack('>h', value)
    elif rc == 66:
        val = bytes([value])
    else:
        raise ValueError(rc)
    return bytes([typ, rc, len(val), 0]) + _fix(mnem, 4) + _fix(units, 4) + val


def table_record(tab):
    out = bytearray(bytes([tab.get('type', 34), 0]))
    out += component_block(73, 65, 'TYPE', '', _fix(tab['name'], 4))
    for row_name, cells in tab['rows']:
        out += component_block(0, 65, 'MNEM', '', _fix(row_name, 4))
        for col, value, units in cells:
            if isinstance(value, str):
                out += component_block(69, 65, col, units, value)
            elif isinstance(value, float):
                out += component_block(69, 68, col, units, value)
            else:
                out += component_block(69, 73, col, units, value)
    return bytes(out)


def entry_block(typ, rc, value):
    if value is None:
        return bytes([typ, 0, rc])
    if rc == 66:
        val = bytes([value])
    elif rc == 79:
        val = struct.pack('>h', value)
    elif rc == 73:
        val = struct.pack('>l', value)
    elif rc == 68:
        val = struct.pack('>L', enc68(value))
    elif rc == 65:
        val = value.encode('ascii') if isinstance(value, str) else value
    else:
        raise ValueError(rc)
    return bytes([typ, len(val), rc]) + val


def channel_size(ch):
    return RC_SIZE[ch['rc']] * ch['samples'] * ch['bursts']


def dfsr_record(d):
    out = bytearray(bytes([64, 0]))
    frame_size = sum(channel_size(c) for c in d['channels'])
    blocks = [entry_block(1, 66, d.get('data_type', 0)), entry_block(2, 66, 0), entry_block(3, 79, min(frame_size, 32767)), entry_block(4, 66, d['updown']),
              entry_block(5, 66, {1: 1, 255: 1, 0: 0}[d['updown']])]
    if d['indirect'] or d.get('always_spacing'):
        blocks += [entry_block(8, 68, d['spacing']), entry_block(9, 65, _fix(d.get('sp_units') or d['units'], 4))]
    blocks += [entry_block(12, 68, d.get('absent', -999.25)), entry_block(13, 66, 1 if d['indirect'] else 0)]
    if d['indirect']:
        blocks += [entry_block(14, 65, _fix(d['units'], 4)), entry_block(15, 66, d['xrc'])]
    elif d.get('full_blocks'):
        # writers that emit the whole entry block set whatever the recording mode: the depth units and depth representation code
        # (blocks 14, 15) of an explicit-X file are noise, the X axis is channel 0
        blocks += [entry_block(14, 65, _fix(d['full_blocks'][0], 4)), entry_block(15, 66, d['full_blocks'][1])]
    blocks += [entry_block(16, 66, 0)]
    n = sum(len(b) for b in blocks) + 3
    blocks.append(bytes([0, 1, 66, 0]) if n % 2 else bytes([0, 0, 66]))
    for b in blocks:
        out += b
    for k, c in enumerate(d['channels']):
        out += struct.pack('>4s6s8s4sI2h3x2B5x', _fix(c['mnem'], 4), _fix('SRVID', 6), _fix(f'{k:08d}', 8), _fix(c['units'], 4),
                           c.get('api', 45310011), 1, channel_size(c), c['samples'], c['rc'])
    return bytes(out)


def data_record(d, frames, x_word):
    out = bytearray(bytes([d.get('data_type', 0), 0]))
    if d['indirect']:
        out += word_bytes(d['xrc'], x_word)
    for fr in frames:
        for c, words in zip(d['channels'], fr):
            for w in words:
                out += word_bytes(c['rc'], w)
    return bytes(out)


# ------------------------------------------------------------------------------------------------
def logical_records(model):
    """[(what, raw bytes)] in file order plus per logical file the reference content."""
    recs = []
    if 'reel' in model['pre']:
        recs.append((('reel-head',), reel_tape_head_tail(132, 'REEL0001', '')))
    if 'tape' in model['pre']:
        recs.append((('tape-head',), reel_tape_head_tail(130, 'TAPE0001', '')))
    prlen = model['phys']['prlen']
    ref = []          # one entry per log pass, in the order of their DFSRs in the file
    for fi, f in enumerate(model['files']):
        # 'continues': no file header in front of this log pass and no trailer behind the previous one: a second format
        # specification with its own data records inside the same logical file (a repeat section after the main pass)
        if not f.get('continues'):
            recs.append((('file-head', fi), file_head_tail(128, f['name'], '' if fi == 0 else model['files'][fi - 1]['name'], min(prlen, 99999))))
        for ti, tab in enumerate(f['tables']):
            recs.append((('table', fi, tab['name']), table_record(tab)))
        plist = [('main', f)] + ([('alt', f['alt'])] if f.get('alt') else [])
        if f.get('alt') and f['alt'].get('first'):
            plist.reverse()
        pref = {}
        for which, pd in plist:
            pref[which] = {'file': fi, 'which': which, 'dfsr_record': len(recs), 'records': []}
            recs.append((('dfsr', fi, which), dfsr_record(pd['dfsr'])))
        cursors = {which: [0, 0] for which, _ in plist}        # [record number, frame number]
        order = f['alt']['order'] if f.get('alt') else [0] * len(f['per_record'])
        for sel in order:
            which = 'alt' if sel else 'main'
            pd = f['alt'] if sel else f
            ri, k = cursors[which]
            n = pd['per_record'][ri]
            xw = pd['x_words'][ri] if pd['dfsr']['indirect'] else None
            pref[which]['records'].append(len(recs))
            recs.append((('data', fi, which, ri), data_record(pd['dfsr'], pd['frames'][k:k + n], xw)))
            cursors[which] = [ri + 1, k + n]
        for which, pd in plist:
            assert cursors[which] == [len(pd['per_record']), len(pd['frames'])], 'order does not consume every data record'
            ref.append(pref[which])
        nxt_continues = fi + 1 < len(model['files']) and model['files'][fi + 1].get('continues')
        if model['post'] and not nxt_continues:
            recs.append((('file-tail', fi), file_head_tail(129, f['name'], '', min(prlen, 99999))))
    if model['post']:
        if 'tape' in model['pre']:
            recs.append((('tape-tail',), reel_tape_head_tail(131, 'TAPE0001', '')))
        if 'reel' in model['pre']:
            recs.append((('reel-tail',), reel_tape_head_tail(133, 'REEL0001', '')))
    return recs, ref


def dfsr_marks(raw):
    """(offset, length, name) of the stored values of a format specification record built by dfsr_record(): entry block values
    and the size / samples / representation code / mnemonic / units of every channel block."""
    marks = []
    p = 2
    while p + 3 <= len(raw):
        typ, size, rc = raw[p], raw[p + 1], raw[p + 2]
        if size:
            marks.append((p + 3, size, ('val.' if rc == 65 else 'val#.') + f'DFSR.entry{typ}'))
        else:
            marks.append((p + 1, 1, f'val#.DFSR.entry{typ}.size'))
        p += 3 + size
        if typ == 0:
            break
    while p + 40 <= len(raw):
        marks += [(p, 4, 'val.DFSR.dsb.mnem'), (p + 18, 4, 'val.DFSR.dsb.units'), (p + 28, 2, 'val#.DFSR.dsb.size'),
                  (p + 33, 1, 'val#.DFSR.dsb.samples'), (p + 34, 1, 'val#.DFSR.dsb.rc')]
        p += 40
    return marks


def build(model):
    recs, ref = logical_records(model)
    ph = model['phys']
    pm = {'prlen': ph['prlen'], 'rec': ph['rec'], 'file': ph['file'], 'chk': ph['chk'], 'tif': ph['tif'], 'records': [], 'tif_pad': ph.get('tif_pad')}
    mp = LP.max_payload(pm)
    for i, (what, raw) in enumerate(recs):
        r = {'key': 0, 'len': len(raw), 'payload_raw': raw}
        if ph.get('chunk_seed') is not None:
            rng = seeds.Rng(seeds.derive('chunks', ph['chunk_seed'], i))
            if rng.chance(0.5) and len(raw) > 2:
                cks, left = [], len(raw)
                while left > 0:
                    c = min(left, rng.randrange(1, mp + 1))
                    cks.append(c)
                    left -= c
                if len(cks) <= 300:
                    r['chunks'] = cks
        pm['records'].append(r)
    if ph.get('tape_marks') and ph['tif'] != 'none':
        # a multi-file tape image: one tape mark behind every logical file (its trailer, or its last record), two at the end
        ends = [i for i, (w, _) in enumerate(recs) if w[0] == 'file-tail']
        if not ends:
            ends = [i - 1 for i, (w, _) in enumerate(recs) if w[0] == 'file-head' and i > 0]
        pm['marks_after'] = [i for i in ends if i < len(recs) - 1]
    LP.fix_reversed(pm)
    by, layout = LP.build(pm)
    layout['what'] = [w for w, _ in recs]
    layout['passes'] = ref
    layout['tif'] = pm['tif']
    for (what, raw), rl in zip(recs, layout['records']):
        if what[0] != 'dfsr':
            continue
        for off, ln, name in dfsr_marks(raw):
            acc = 0
            for pr in rl['prs']:
                if off < acc + pr['data_len']:
                    layout['fields'].append((pr['data_pos'] + off - acc, min(ln, acc + pr['data_len'] - off), name))
                    break
                acc += pr['data_len']
    return by, layout


def passes_of(model):
    """The log passes of the model as (file index, 'main'|'alt', pass dict) in the order of their DFSRs in the file."""
    out = []
    for fi, f in enumerate(model['files']):
        pl = [(fi, 'main', f)] + ([(fi, 'alt', f['alt'])] if f.get('alt') else [])
        if f.get('alt') and f['alt'].get('first'):
            pl.reverse()
        out.extend(pl)
    return out


#: (units of the frame spacing, units of the X axis) -> factor; only pairs whose factor is beyond argument
SPACING_UNIT_PAIRS = {('IN  ', '.1IN'): 10.0, ('FEET', '.1IN'): 120.0, ('FEET', 'IN  '): 12.0, ('M   ', 'MM  '): 1000.0, ('M   ', 'CM  '): 100.0,
                      ('US  ', 'MS  '): 0.001, ('MS  ', 'S   '): 0.001, ('S   ', 'MS  '): 1000.0, ('.1IN', 'IN  '): 0.1, ('MM  ', 'M   '): 0.001,
                      ('CM  ', 'M   '): 0.01}


def spacing_in_x_units(d):
    """The declared frame spacing (entry blocks 8, 9) expressed in the units of the X axis (entry block 14)."""
    su = d.get('sp_units')
    if su is None or su == d['units']:
        return abs(d['spacing'])
    return abs(d['spacing']) * SPACING_UNIT_PAIRS[(su, d['units'])]


def x_of_frame(f, k):
    """Reference X value of frame k of a logical file (double)."""
    d = f['dfsr']
    if not d['indirect']:
        return ref_value(d['channels'][0]['rc'], f['frames'][k][0][0])
    acc = 0
    for ri, n in enumerate(f['per_record']):
        if k < acc + n:
            sp = spacing_in_x_units(d) * (-1.0 if d['updown'] == 1 else 1.0)
            return ref_value(d['xrc'], f['x_words'][ri]) + (k - acc) * sp
        acc += n
    raise IndexError(k)


# ------------------------------------------------------------------------------------------------
MNEMS = ['DEPT', 'TIME', 'GR  ', 'CALI', 'TENS', 'RHOB', 'NPHI', 'SP  ', 'ILD ', 'SFLU', 'DT  ', 'WF1 ', '  GR', ' SP ']
TABLES = ['CONS', 'TOOL', 'PRES', 'FILM', 'AREA', 'WARN', 'XYZ ']


def gen_file(rng, fi, max_frames=40, names_pool=None):
    pool = list(names_pool or MNEMS)
    rng.shuffle(pool)
    indirect = rng.chance(0.45)
    updown = rng.pick([1, 255, 0])
    nch = rng.wpick([(4, 1), (10, rng.randrange(2, 6)), (4, rng.randrange(5, 9)), (2, rng.randrange(9, 21)), (1, rng.randrange(33, 41))])
    while len(pool) < nch:
        pool.append('C%03d' % len(pool))
    sp = rng.pick([0.5, 1.0, 6.0, 60.0, 0.25, 2.0])
    units = rng.pick(['.1IN', 'FEET', 'M   ', 'S   ', 'IN  ']) if updown else rng.pick(['S   ', 'MS  '])
    channels = []
    for c in range(nch):
        if c == 0 and not indirect:
            rc = rng.wpick([(5, 68), (2, 73), (1, 70), (1, 50), (1, 79)])
            ch = {'mnem': pool[c], 'units': units, 'rc': rc, 'samples': 1, 'bursts': 1}
        else:
            rc = rng.pick(FRAME_CODES)
            samples = rng.wpick([(7, 1), (2, rng.randrange(2, 5))])
            bursts = rng.wpick([(8, 1), (1, rng.randrange(2, 4))])
            ch = {'mnem': pool[c], 'units': rng.pick(['GAPI', 'IN  ', 'LB  ', 'G/C3', 'PU  ', '    ', 'MV  ']), 'rc': rc, 'samples': samples, 'bursts': bursts}
        channels.append(ch)
    d = {'updown': updown, 'indirect': indirect, 'spacing': sp, 'units': units, 'xrc': rng.pick([68, 68, 73]) if indirect else 68,
         'absent': -999.25, 'channels': channels, 'always_spacing': rng.chance(0.5)}
    if indirect and d['xrc'] == 73:
        d['spacing'] = float(rng.pick([1, 2, 6, 60]))
    if not indirect and rng.chance(0.3):
        d['full_blocks'] = [rng.pick(['.1IN', 'FEET', 'M   ', 'S   ']), rng.pick([68, 73, 79, 56, 49, 70])]
    if indirect and rng.chance(0.3):
        # the spacing is declared in other units than the X axis (inches on a tenth-of-an-inch axis, microseconds on a millisecond
        # axis): the spacing in X units may then be fractional even where X itself is recorded as an integer
        su, xu = rng.pick(sorted(SPACING_UNIT_PAIRS))
        d['sp_units'], d['units'] = su, xu
        d['xrc'] = rng.pick([68, 73, 73, 79])
        d['spacing'] = float(rng.pick([0.5, 0.125, 0.25, 1.0, 2.0, 3.0, 6.0, 500.0, 250.0]))
    nframes = rng.wpick([(1, 1), (2, rng.randrange(2, 6)), (5, rng.randrange(min(4, max_frames), max_frames + 1))])
    # frames per record pattern
    per = rng.wpick([(3, 1), (3, rng.randrange(2, 5)), (3, rng.randrange(3, 12)), (1, nframes)])
    pattern = rng.wpick([(6, 'regular'), (3, 'irregular')])
    per_record = []
    left = nframes
    while left > 0:
        n = per if pattern == 'regular' else rng.randrange(1, per + 2)
        n = min(n, left)
        per_record.append(n)
        left -= n
    x0 = rng.pick([1000.0, 9000.5, 120.0, 0.0, 5400.25]) if d['xrc'] == 68 or not indirect else float(rng.pick([1000, 120000, 0] if d['xrc'] == 73 else [1000, 20000, 0]))
    sgn = -1.0 if updown == 1 else 1.0
    frames = []
    for k in range(nframes):
        fr = []
        for c, ch in enumerate(channels):
            nv = ch['samples'] * ch['bursts']
            if c == 0 and not indirect:
                fr.append([gen_word(rng, ch['rc'], hint=x0 + sgn * k * d['spacing'])])
            else:
                fr.append([gen_word(rng, ch['rc']) for _ in range(nv)])
        frames.append(fr)
    x_words = []
    if indirect:
        acc = 0
        for n in per_record:
            x_words.append(gen_word(rng, d['xrc'], hint=x0 + sgn * acc * spacing_in_x_units(d)))
            acc += n
    tables = []
    for _ in range(rng.wpick([(3, 0), (4, 1), (2, 2), (1, 3)])):
        rows = []
        for r in range(rng.randrange(1, 4)):
            cells = [['STAT', 'ALLO', ''], ['PUNI', rng.pick(['FEET', 'M   ', '    ']), ''], ['VALU', rng.pick([12.5, 'TEXT', 7]), rng.pick(['', 'IN  '])]]
            rows.append([rng.pick(['BS  ', 'MW  ', 'TD  ', 'R1  ', 'HDAT']) if r == 0 else f'R{r:03d}', cells])
        tables.append({'name': rng.pick(TABLES), 'rows': rows})
    return {'name': f'FILE  .{fi + 1:03d}', 'tables': tables, 'dfsr': d, 'per_record': per_record, 'x_words': x_words, 'frames': frames}


def gen_alt(rng, main, max_frames, names_pool):
    """A second, simultaneous log pass in the same logical file: its DFSR describes 'alternate' data records (type 1),
    which are interleaved with the normal (type 0) data records of the main pass."""
    alt = gen_file(rng, 0, max_frames, names_pool)
    a = {'dfsr': dict(alt['dfsr'], data_type=1), 'per_record': alt['per_record'], 'x_words': alt['x_words'], 'frames': alt['frames'],
         'first': rng.chance(0.4)}
    order = [0] * len(main['per_record']) + [1] * len(a['per_record'])
    rng.shuffle(order)
    a['order'] = order
    return a


def make_huge(f, target_bytes=6_900_000):
    """Repeat the frames of a logical file until its data fills target_bytes, in data records of about 8 kB (so that most
    logical records span several physical records).  The values repeat; size is what matters here."""
    d = f['dfsr']
    fb = max(1, sum(channel_size(c) for c in d['channels']))
    k = -(-target_bytes // (fb * len(f['frames'])))
    f['frames'] = f['frames'] * k
    n = len(f['frames'])
    per = max(1, min(n, 8000 // fb))
    f['per_record'] = [per] * (n // per) + ([n % per] if n % per else [])
    if d['indirect']:
        f['x_words'] = [f['x_words'][0]] * len(f['per_record'])
    f.pop('alt', None)


def gen_model(rng, max_frames=40, names_pool=None, max_files=2, small_pr=False, allow_alt=False, huge=False, tif_pad=False, tape_marks=False,
              same_file_passes=False):
    rec = rng.chance(0.25)
    filen = rng.pick([None, None, None, 1, 7])
    chk = rng.chance(0.2)
    tl = (2 if rec else 0) + (2 if filen is not None else 0) + (2 if chk else 0)
    prlen = rng.wpick([(3, 1024), (2, rng.pick([256, 512, 4096, 8192])), (2, rng.randrange(4 + tl + 40, 400)), (1, rng.randrange(4 + tl + 8, 64)), (1, 65535)])
    parity_shape = False
    if small_pr:
        prlen = rng.randrange(4 + tl + 12, 4 + tl + 40)      # hundreds of physical records even for a small file
        if rng.chance(0.5):
            # a long run of even-length physical records followed, much later, by odd-length ones (padding heuristics
            # of readers look at the first records only)
            parity_shape = True
            prlen += prlen % 2
    tif = rng.wpick([(4, 'none'), (3, 'normal'), (1, 'reversed')])
    pre = rng.pick([[], [], ['tape'], ['reel', 'tape'], ['reel']])
    nfiles = rng.wpick([(6, 1), (2, max_files)])
    if huge:
        prlen = rng.pick([1024, 1024, 4096, 8192, 65535])
    model = {'phys': {'prlen': prlen, 'rec': rec, 'file': filen, 'chk': chk, 'tif': tif, 'chunk_seed': rng.getrandbits(32) if rng.chance(0.3) and not huge else None},
             'pre': pre, 'post': rng.chance(0.7), 'files': _gen_files(rng, 2 if parity_shape else nfiles, max_frames, names_pool, allow_alt, parity_shape)}
    if same_file_passes and not huge:
        if len(model['files']) < 2:
            model['files'] += _gen_files(rng, 1, min(max_frames, 12), names_pool, False)
        for f_ in model['files'][1:]:
            f_['continues'] = True
            f_['tables'] = f_['tables'] if rng.chance(0.5) else []
            f_.pop('alt', None)
        model['files'][0].pop('alt', None)
    if huge:
        make_huge(model['files'][0])
    if tape_marks:
        if model['phys']['tif'] == 'none':
            model['phys']['tif'] = rng.pick(['normal', 'normal', 'reversed'])
        model['phys']['tape_marks'] = True
        if len(model['files']) < 2:
            model['files'] += _gen_files(rng, 1, min(max_frames, 6), names_pool, False)
    if tif_pad:
        if model['phys']['tif'] == 'none':
            model['phys']['tif'] = rng.pick(['normal', 'normal', 'reversed'])
        model['phys']['tif_pad'] = [rng.pick(['min', 'align']), rng.pick([14, 16, 8, 32, 6, 10]), rng.pick(['null', 'space'])]
    return model


def _gen_files(rng, nfiles, max_frames, names_pool, allow_alt, parity_shape=False):
    files = [gen_file(rng, fi, max_frames, names_pool) for fi in range(nfiles)]
    if parity_shape:
        even = [49, 50, 68, 70, 73, 79]
        f0, f1 = files[0], files[1]
        for ci, ch in enumerate(f0['dfsr']['channels']):
            if RC_SIZE[ch['rc']] % 2:
                ch['rc'] = rng.pick(even)
                for fr in f0['frames']:
                    fr[ci] = [gen_word(rng, ch['rc']) for _ in fr[ci]]
        # second logical file: one byte channel, odd number of frames per record
        ch = f1['dfsr']['channels'][-1] if len(f1['dfsr']['channels']) > 1 else None
        if ch is not None:
            ci = len(f1['dfsr']['channels']) - 1
            ch.update(rc=rng.pick([56, 66, 77]), samples=1, bursts=1)
            for fr in f1['frames']:
                fr[ci] = [gen_word(rng, ch['rc'])]
        f0['tables'] = [t for t in f0['tables']]
    if allow_alt:
        for f in files:
            if rng.chance(0.2):
                f['alt'] = gen_alt(rng, f, max_frames, names_pool)
    return files
