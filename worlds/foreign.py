"""Foreign file contents for C12/C20: things a log directory really contains besides logs."""
from sim import seeds

KINDS = ['pdf', 'zip', 'xml', 'segy', 'ascii', 'random', 'png', 'nul', 'tiff', 'ps', 'lowbytes', 'utf16']


def content(kind: str, seed: int, size: int) -> bytes:
    rng = seeds.Rng(seeds.derive('foreign', kind, seed))
    body = rng.rbytes(size)
    if kind == 'pdf':
        return (b'%PDF-1.4\n%\xe2\xe3\xcf\xd3\n1 0 obj\n<< /Type /Catalog >>\nendobj\n' + body + b'\n%%EOF\n')
    if kind == 'zip':
        return b'PK\x03\x04\x14\x00\x00\x00\x08\x00' + body + b'PK\x05\x06' + b'\x00' * 18
    if kind == 'xml':
        txt = '<?xml version="1.0" encoding="UTF-8"?>\n<root>\n' + ''.join(f'  <item n="{i}">{rng.randrange(10**6)}</item>\n' for i in range(size // 40)) + '</root>\n'
        return txt.encode('ascii')
    if kind == 'segy':
        # 3200 byte EBCDIC textual header (C 1 ... in EBCDIC: 0xC3 0x40 0xF1) + binary header
        card = bytes([0xC3, 0x40, 0xF1]) + bytes([0x40]) * 77
        return card * 40 + b'\x00' * 12 + b'\x00\x01' * 194 + body
    if kind == 'ascii':
        words = ['depth', 'gamma', 'well', 'the', 'log', 'run', '12.5', '0.25', 'NULL', '-999.25', 'UTIM', 'DATE', 'TIME', '~V', '~A', ':', '.']
        out = []
        while sum(len(w) + 1 for w in out) < size:
            out.append(rng.pick(words))
            if rng.chance(0.15):
                out.append('\n')
        return ' '.join(out).encode('ascii')
    if kind == 'png':
        return b'\x89PNG\r\n\x1a\n\x00\x00\x00\rIHDR' + body
    if kind == 'nul':
        return b'\x00' * size
    if kind == 'tiff':
        return b'II*\x00\x08\x00\x00\x00' + body
    if kind == 'ps':
        return b'%!PS-Adobe-3.0\n' + body
    if kind == 'lowbytes':
        return bytes(b & 0x7f for b in body)
    if kind == 'utf16':
        return '﻿well log report\r\n'.encode('utf-16-le') + body
    return body
