"""DAT mud-log text: content model -> text (DESIGN C14).  Model::

    {'decls': [{'name', 'desc' (words, single-space joined), 'units', 'sep': ' ' | '\\t'}],   # any order
     'header': [names: UTIM DATE TIME + non-empty subset of the others], 'header_sep': str,
     'date_style': 'A' ('12Oct20') | 'B' ('12-Oct-20'),
     'rows': [{'utim': int, 'floats': [str tokens]}], 'row_sep': str, 'trailing_newline': bool}
"""
import datetime
import time

MONTHS = ['Jan', 'Feb', 'Mar', 'Apr', 'May', 'Jun', 'Jul', 'Aug', 'Sep', 'Oct', 'Nov', 'Dec']
BASE = [('UTIM', 'Unix Time', 'sec'), ('DATE', 'Date', 'ddmmyy'), ('TIME', 'Time', 'hhmmss')]
POOL = [('WAC', 'Wits Activity Code', 'unitless'), ('BDIA', 'Bit Diameter', 'inch'), ('DBTM', 'Bit Measured Depth', 'm'),
        ('DMEA', 'Hole Measured Depth', 'm'), ('RSU', 'Pulling Speed', 'm/sec'), ('ROP', 'ROP', 'm/hr'), ('HKL', 'Hookload', 'tons'),
        ('WOB', 'Weight on Bit', 'tons'), ('TRQ', 'Torque', 'kNm'), ('RPMA', 'String RPM', 'rpm'), ('SPP', 'Pump Pressure', 'bar'),
        ('GAS', 'Total Gas', '%'), ('METH', 'Methane', 'ppm'), ('C2', 'Ethane 2', 'ppm'), ('MTO', 'Mud Temp Out', 'degC'),
        ('ECDB', 'Eff Circ Density at Bit', 'g/cc'), ('X1', 'x', 'u')]


def date_token(utim: int, style: str) -> str:
    t = time.gmtime(utim)
    yy = t.tm_year % 100
    if style == 'A':
        return f'{t.tm_mday:02d}{MONTHS[t.tm_mon - 1]}{yy:02d}'
    return f'{t.tm_mday}-{MONTHS[t.tm_mon - 1]}-{yy:02d}'


def time_token(utim: int) -> str:
    t = time.gmtime(utim)
    return f'{t.tm_hour:02d}-{t.tm_min:02d}-{t.tm_sec:02d}'


def decl_line(d) -> str:
    sep = d.get('sep', ' ')
    words = d['desc'].split(' ')
    return d['name'] + sep + sep.join(words) + sep + d['units']


def row_tokens(model, row):
    return [str(row['utim']), date_token(row['utim'], model['date_style']), time_token(row['utim'])] + list(row['floats'])


def lines(model):
    """Returns the list of text lines with a tag per line: ('decl', i) / ('header',) / ('row', i)."""
    out = []
    for i, d in enumerate(model['decls']):
        out.append((('decl', i), decl_line(d)))
    out.append((('header',), model.get('header_sep', ' ').join(model['header'])))
    for i, row in enumerate(model['rows']):
        out.append((('row', i), model.get('row_sep', ' ').join(row_tokens(model, row))))
    return out


def text_of(line_list, trailing_newline=True) -> str:
    t = '\n'.join(l for _, l in line_list)
    return t + ('\n' if trailing_newline and line_list else '')


def expected(model):
    """What parsing must give: [(name, description, units, [values])]."""
    decl = {d['name']: d for d in model['decls']}
    cols = []
    for c, name in enumerate(model['header']):
        d = decl[name]
        vals = []
        for row in model['rows']:
            if name == 'UTIM':
                vals.append(datetime.datetime(*time.gmtime(row['utim'])[:6]))
            elif name == 'DATE':
                t = time.gmtime(row['utim'])
                vals.append(datetime.date(t.tm_year, t.tm_mon, t.tm_mday))
            elif name == 'TIME':
                t = time.gmtime(row['utim'])
                vals.append(datetime.time(t.tm_hour, t.tm_min, t.tm_sec))
            else:
                vals.append(float(row['floats'][c - 3]))
        cols.append((name, d['desc'], d['units'], vals))
    return cols


def gen_model(rng, max_rows=30, big=False):
    others = list(POOL)
    if big:
        # many channels: the declarations + header + first row are several kB (real mud-log files have 60..200 channels)
        others += [(f'CH{k:03d}', f'Channel number {k} of the mud log', rng.pick(['m', 'bar', 'ppm', 'l/min', 'g/cc'])) for k in range(rng.randrange(90, 170))]
        max_rows = min(max_rows, 3)
    rng.shuffle(others)
    n_decl = rng.randrange(1, min(len(others), 10) + 1) if not big else rng.randrange(90, len(others) + 1)
    declared = others[:n_decl]
    used_n = rng.randrange(1, n_decl + 1) if not big else rng.randrange(max(1, n_decl - 20), n_decl + 1)
    used = declared[:used_n]
    rng.shuffle(used)
    decls = [{'name': n, 'desc': d, 'units': u, 'sep': rng.pick([' ', ' ', '\t'])} for n, d, u in BASE + declared]
    if rng.chance(0.5):
        rng.shuffle(decls)
    header = ['UTIM', 'DATE', 'TIME'] + [n for n, _, _ in used]
    nrows = rng.wpick([(1, 0), (2, 1), (5, rng.randrange(2, max_rows + 1))])
    # 1951 .. 2050 so that the two digit year convention (yr > 50 -> 19xx) round trips
    t0 = rng.pick([1_600_000_000, 946_684_800, 1_300_000_000, 86_400 * 365 * 2, 2_000_000_000]) + rng.randrange(0, 10 ** 6)
    if rng.chance(0.3):
        # calendar boundaries: leap days (2000 is a leap year, 1900 is not), century and pivot years of the two digit convention,
        # month ends, midnight; the rows run across the boundary
        import calendar
        y, mo, d = rng.pick([(2000, 2, 29), (2000, 2, 29), (2004, 2, 29), (1996, 2, 29), (2000, 3, 1), (2000, 1, 1), (1999, 12, 31), (1951, 1, 1),
                             (2050, 12, 31), (2001, 1, 1), (2024, 2, 29), (2010, 12, 31), (1970, 1, 2), (2038, 1, 19), (2049, 2, 28)])
        t0 = calendar.timegm((y, mo, d, 0, 0, 0)) - rng.pick([0, 0, 1, 5, 60, 3600, -1, -86399])
        if y == 1951:
            t0 = calendar.timegm((y, mo, d, 0, 0, 0)) + rng.pick([0, 1, 3600])     # 1950 would be written '50' = 2050 (outside the convention)
    rows = []
    for r in range(nrows):
        toks = []
        for _ in used:
            k = rng.randrange(6)
            v = [f'{rng.uniform(-1000, 1000):.3f}', f'{rng.randrange(-50, 5000)}', f'{rng.uniform(0, 1):.6f}', '0', '-999.25',
                 f'{rng.uniform(1, 9):.2f}e{rng.randrange(-5, 6)}'][k]
            toks.append(v)
        rows.append({'utim': t0 + r * rng.pick([1, 5, 60]), 'floats': toks})
    # the two digit year convention (yr > 50 -> 19yy, else 20yy) covers 1951-01-01 .. 2050-12-31 only
    import calendar as _cal
    lo, hi = _cal.timegm((1951, 1, 1, 0, 0, 0)), _cal.timegm((2051, 1, 1, 0, 0, 0)) - 1
    if rows:
        shift = 0
        if max(r['utim'] for r in rows) > hi:
            shift = hi - max(r['utim'] for r in rows)
        if min(r['utim'] for r in rows) + shift < lo:
            shift = lo - min(r['utim'] for r in rows)
        for r in rows:
            r['utim'] += shift
    return {'decls': decls, 'header': header, 'header_sep': rng.pick([' ', '    ', '\t', ' \t ']), 'date_style': rng.pick(['A', 'B']),
            'rows': rows, 'row_sep': rng.pick([' ', '    ', '\t', '  \t']), 'trailing_newline': rng.chance(0.8)}


def token_fields(by: bytes):
    """(pos, n, name) of the header line and of the first three tokens (UTIM DATE TIME) of the first data row."""
    import re
    out = []
    hdr = re.search(rb'^UTIM\s+DATE\s+TIME.*$', by, re.M)
    if hdr:
        out.append((hdr.start(), min(16, hdr.end() - hdr.start()), 'dat.header'))
        row = re.match(rb'\n(\S+)\s+(\S+)\s+(\S+)', by[hdr.end():])
        if row:
            for i in (1, 2, 3):
                out.append((hdr.end() + row.start(i), row.end(i) - row.start(i), 'dat.token'))
    return out
