"""The batch-conversion world (DESIGN 2.5, C11/C12): a directory tree of generated, damaged and
foreign files, converted by the real drivers sequentially, under SimPool, and file by file.

File spec:  {'path': 'sub/a.bit', 'gen': {'world': <name>, 'seed': int, ...options}, 'faults': [...]}
Run spec:   {'mode': 'seq'} | {'mode': 'pool', 'jobs': n, 'schedule': [...]|policy, 'clock': {...}} | {'mode': 'alone'}
"""
import json
import os
import shutil
import traceback

from sim import seeds, damage, build as simbuild
from sim.budget import StepBudget, BudgetExceeded
from sim import simpool

CONVERTERS = {
    'bit': ('TotalDepth.BIT.ToLAS', 'single_bit_path_to_las_path'),
    'rp66v1': ('TotalDepth.RP66V1.ToLAS', 'single_rp66v1_file_to_las'),
    'lis': ('TotalDepth.LIS.ToLAS', 'single_lis_file_to_las'),
}
NATIVE_WORLD = {'bit': 'bit', 'rp66v1': 'dlis', 'lis': 'lis'}
EXT = {'bit': ['.bit', '.BIT', ''], 'dlis': ['.dlis', '.DLIS', '.dls'], 'lis': ['.lis', '.LIS', '.tif'], 'las': ['.las', '.LAS'],
       'dat': ['.dat'], 'foreign': ['.pdf', '.txt', '.zip', '.bin', ''], 'dlis_phys': ['.dlis'], 'lis_phys': ['.lis']}


# ------------------------------------------------------------------------------------------------
def vary(world, model, vseed):
    """A sibling of a generated file (gen['variant']): the same log delivered again with corrections.  Identity, structure,
    names and every length stay as they are; parameter values change (same length) and samples of one channel swap places."""
    rng = seeds.Rng(seeds.derive('variant', world, vseed))

    def swap(seq):
        if len(seq) >= 2:
            i, j = rng.sample(range(len(seq)), 2)
            seq[i], seq[j] = seq[j], seq[i]

    if world == 'dlis':
        for lf in model['lfs']:
            for prm in lf['params']:
                prm[1] = ''.join(rng.pick('ABCXYZ019') if ch != ' ' else ch for ch in prm[1])
            for fr in lf['frames']:
                ncol = len(fr['channels'])
                if ncol > 1 and len(fr['rows']) >= 2:
                    c = rng.randrange(1, ncol)
                    i, j = rng.sample(range(len(fr['rows'])), 2)
                    fr['rows'][i]['bits'][c], fr['rows'][j]['bits'][c] = fr['rows'][j]['bits'][c], fr['rows'][i]['bits'][c]
    elif world == 'bit':
        for ps in model['passes']:
            swap(ps['values'][rng.randrange(len(ps['values']))])
    elif world == 'lis':
        for lf in model['files']:
            fr = lf.get('frames') or []
            if len(fr) >= 2 and fr[0]:
                c = rng.randrange(len(fr[0]))
                i, j = rng.sample(range(len(fr)), 2)
                fr[i][c], fr[j][c] = fr[j][c], fr[i][c]
    return model


# file contents from a gen spec (pure function of the spec)
def file_content(gen):
    """Returns (bytes, fields, info) where fields = [(pos, n, name)] for damage biasing and info is
    world specific (the content model / layout for the C11 oracle)."""
    world = gen['world']
    rng = seeds.Rng(seeds.derive('file', world, gen['seed']))
    if world == 'bit':
        from worlds import bit
        model = bit.gen_model(rng, max_passes=gen.get('passes', 3), max_frames=gen.get('frames', 40), names_pool=gen.get('names'), long=gen.get('long', False))
        if gen.get('variant'):
            model = vary(world, model, gen['variant'])
        by, layout = bit.build(model)
        return by, layout['fields'], {'model': model, 'layout': layout}
    if world == 'dlis':
        from worlds import dlis_logical
        model = dlis_logical.gen_model(rng, max_frames=gen.get('frames', 30), names_pool=gen.get('names'), max_lfs=gen.get('lfs', 2))
        if gen.get('variant'):
            model = vary(world, model, gen['variant'])
        by, layout = dlis_logical.build(model)
        return by, layout['fields'], {'model': model, 'layout': layout}
    if world == 'lis':
        from worlds import lis_logical
        model = lis_logical.gen_model(rng, max_frames=gen.get('frames', 40), names_pool=gen.get('names'), small_pr=gen.get('small_pr', False), huge=gen.get('huge', False), tif_pad=gen.get('tif_pad', False), tape_marks=gen.get('tape_marks', False), same_file_passes=gen.get('same_file_passes', False))
        if gen.get('variant'):
            model = vary(world, model, gen['variant'])
        by, layout = lis_logical.build(model)
        return by, layout['fields'], {'model': model, 'layout': layout}
    if world == 'dlis_phys':
        from worlds import dlis_phys
        model = dlis_phys.gen_model(rng, max_records=6)
        by, layout = dlis_phys.build(model)
        return by[:20000], layout['fields'], {}
    if world == 'lis_phys':
        from worlds import lis_phys
        model = lis_phys.gen_model(rng, max_records=5)
        by, layout = lis_phys.build(model)
        return by[:20000], layout['fields'], {}
    if world == 'las':
        from worlds import las
        m = las.gen_model(rng, max_rows=gen.get('frames', 20))
        by_ = las.text(m).encode('ascii')
        return by_, las.token_fields(by_), {'model': m}
    if world == 'dat':
        from worlds import dat
        m = dat.gen_model(rng, max_rows=gen.get('frames', 10), big=gen.get('big', False))
        by_ = dat.text_of(dat.lines(m), m['trailing_newline']).encode('ascii')
        return by_, dat.token_fields(by_), {'model': m}
    if world == 'foreign':
        from worlds import foreign
        return foreign.content(gen.get('kind', 'random'), gen['seed'], gen.get('size', 300)), [], {}
    raise ValueError(f'unknown world {world}')


def materialise(files, in_dir):
    """Writes the input tree. Returns {relpath: {'size', 'damaged' (fault changed bytes), 'healthy_native' ...}}."""
    meta = {}
    for spec in files:
        if spec.get('dangling'):
            # a directory entry that is neither a file nor a directory once links are followed: a link whose target was moved
            # away, or a link to itself.  It is not an input file.
            p = os.path.join(in_dir, spec['path'])
            os.makedirs(os.path.dirname(p), exist_ok=True)
            os.symlink(p if spec['dangling'] == 'loop' else os.path.join(in_dir, '..', 'archive', 'gone-' + os.path.basename(p)), p)
            continue
        by, fields, info = file_content(spec['gen'])
        original = by
        if spec.get('faults'):
            by = damage.apply_all(by, spec['faults'])
        p = os.path.join(in_dir, spec['path'])
        os.makedirs(os.path.dirname(p), exist_ok=True)
        if spec.get('symlink'):
            # the directory entry is a symbolic link to a file kept elsewhere (a staging directory of links into an archive)
            arch = os.path.join(os.path.dirname(os.path.abspath(in_dir)), 'archive')
            os.makedirs(arch, exist_ok=True)
            target = os.path.join(arch, '%03d_%s' % (len(meta), os.path.basename(spec['path']) or 'f'))
            with open(target, 'wb') as f:
                f.write(by)
            os.symlink(target, p)
        else:
            with open(p, 'wb') as f:
                f.write(by)
        meta[spec['path']] = {'size': len(by), 'world': spec['gen']['world'], 'faulted': bool(spec.get('faults')),
                              'fault_fired': by != original,
                              'fault_kinds': [f[0] for f in spec.get('faults', [])]}
    return meta


def make_slice(cfg):
    from TotalDepth.common import Slice
    s = cfg.get('slice')
    if s is None:
        return Slice.Slice()
    if s[0] == 'sample':
        return Slice.Sample(s[1])
    return Slice.Slice(s[1], s[2], s[3])


def list_inputs(in_dir, recurse):
    out = []
    for dirpath, dirnames, filenames in os.walk(in_dir):
        dirnames.sort()
        for n in sorted(filenames):
            if os.path.isfile(os.path.join(dirpath, n)):          # follows links; a dangling link is not an input file
                out.append(os.path.relpath(os.path.join(dirpath, n), in_dir))
        if not recurse:
            break
    return sorted(out)


def step_budget_for(sizes):
    return 6_000_000 + 4000 * max(sizes or [0])


# ------------------------------------------------------------------------------------------------
def _run_in_child(spec):
    """Executed in a forked child: one run of the real driver. Returns a JSON-able dict."""
    import importlib
    root, run, scenario = spec['root'], spec['run'], spec['scenario']
    in_dir = os.path.join(root, 'in')
    out_dir = os.path.join(root, spec['name'], 'out')
    if scenario.get('relative_paths'):
        # the tool is started inside the directory that holds the input tree and given relative paths
        os.chdir(root)
        in_dir, out_dir = 'in', os.path.join(spec['name'], 'out')
    if scenario.get('out_inside'):
        # the output directory lies inside the input tree and does not exist yet (tdlistolas -r data/ data/LAS/)
        out_dir = os.path.join(in_dir, scenario['out_inside'])
    conv_mod_name, conv_fn_name = CONVERTERS[scenario['converter']]
    conv_mod = importlib.import_module(conv_mod_name)
    fn = getattr(conv_mod, conv_fn_name)
    from TotalDepth.LAS.core import WriteLAS
    cfg = scenario['config']
    ck = run.get('clock', {})
    clock = simpool.SimClock(base_s=ck.get('base', 0.0), skews=ck.get('skew', [0.0]), delta_s=ck.get('delta', 0.25), jumps=ck.get('jumps'))
    WriteLAS.datetime = simpool._DatetimeShim(clock)
    conv_mod.time = simpool._TimeShim(clock)
    fs = simpool.SimFS(root)
    sim = {'fs': fs, 'clock': clock, 'schedule': run.get('schedule', 'fifo'), 'trace': [], 'choices': [],
           'step_budget': spec['budget']}
    out = {'status': 'ok', 'results': {}, 'trace_len': 0}
    shim = None
    # The simulated machine has a finite address space (runner.MEMORY_LIMIT_BYTES): a failing allocation is a fault it injects,
    # and whether a request of several GB (a damaged length field handed to read()) fails depends on what the process holds
    # already.  Every MemoryError raised is noted (in this process and in the pool workers forked from it) so that the oracle
    # can relax, narrowly, for the damaged files of such a run.
    mem_note = os.path.join(root, '.alloc-failed-' + spec['name'])
    try:
        import sys as _sys
        mon_ = _sys.monitoring

        def _on_raise(code, offset, exc, _p=mem_note):
            if isinstance(exc, MemoryError):
                try:
                    fd_ = os.open(_p, os.O_WRONLY | os.O_CREAT | os.O_APPEND, 0o600)
                    os.write(fd_, b'x')
                    os.close(fd_)
                except OSError:
                    pass
        try:
            mon_.use_tool_id(5, 'verif-alloc')
        except ValueError:
            pass
        mon_.register_callback(5, mon_.events.RAISE, _on_raise)
        mon_.set_events(5, mon_.events.RAISE)
    except Exception:
        pass
    fs.install()
    try:
        args = (cfg['reduce'], make_slice(cfg), set(cfg['channels']), cfg['width'], cfg['fmt'])
        if run['mode'] == 'seq':
            with StepBudget(spec['budget'] * max(1, spec['n_files'])) as sb:
                res = WriteLAS.convert_dir_or_file_to_las(in_dir, out_dir, scenario['recurse'], *args, fn)
            out['steps'] = sb.count
        elif run['mode'] == 'realpool':
            # stub-fidelity self-test only: the real multiprocessing.Pool, real scheduling (results must not depend on it)
            import multiprocessing
            try:
                res = WriteLAS.convert_dir_or_file_to_las_multiprocessing(in_dir, out_dir, scenario['recurse'], *args, run['jobs'], fn)
            finally:
                for ch in multiprocessing.active_children():
                    ch.terminate()
                    ch.join(5)
            out['steps'] = 0
        elif run['mode'] == 'pool':
            shim = simpool.MultiprocessingShim(sim)
            WriteLAS.multiprocessing = shim
            res = WriteLAS.convert_dir_or_file_to_las_multiprocessing(in_dir, out_dir, scenario['recurse'], *args, run['jobs'], fn)
            for p in shim.pools:
                p.drain()
            out['tasks_per_worker'] = [sorted(p.tasks_per_worker.values(), reverse=True) for p in shim.pools][0] if shim.pools else []
            out['steps'] = max(sim.get('task_steps', {0: 0}).values() or [0])
        else:
            rel = spec['alone']
            if run.get('stale_first'):
                # history of the PATH inside this process: it first held other bytes of the same size (a damaged or unfinished copy,
                # converted and rightly ignored or failed), then the file was repaired in place and is converted again
                p_ = os.path.join(in_dir, rel)
                with open(p_, 'rb') as fh_:
                    real = fh_.read()
                stale = damage.apply_all(real, run['stale_first'])
                if len(stale) == len(real) and stale != real:
                    with open(p_, 'wb') as fh_:
                        fh_.write(stale)
                    try:
                        with StepBudget(spec['budget']):
                            WriteLAS.convert_dir_or_file_to_las(p_, os.path.join(out_dir + '_stale', rel), scenario['recurse'], *args, fn)
                    except BaseException:
                        pass
                    with open(p_, 'wb') as fh_:
                        fh_.write(real)
                    out['stale_first_done'] = True
            with StepBudget(spec['budget']) as sb:
                res = WriteLAS.convert_dir_or_file_to_las(os.path.join(in_dir, rel), os.path.join(out_dir, rel), scenario['recurse'], *args, fn)
            out['steps'] = sb.count
        for k, r in res.items():
            relk = os.path.relpath(k, in_dir)
            out['results'][relk] = {'path_input': os.path.relpath(r.path_input, in_dir), 'binary_file_type': r.binary_file_type,
                                    'size_input': r.size_input, 'size_output': r.size_output, 'las_count': r.las_count,
                                    'exception': bool(r.exception), 'ignored': bool(r.ignored)}
    except simpool.SimPoolHarnessError:
        raise
    except simpool.WorkerDied as err:
        out['status'] = 'worker-died'
        out['detail'] = str(err)
    except (BudgetExceeded, simpool.TaskBudgetExceeded) as err:
        out['status'] = 'budget'
        out['detail'] = str(err)
    except BaseException as err:
        out['status'] = 'exception'
        out['exc'] = type(err).__name__
        tb = traceback.format_exc()
        tbs = sim.get('task_tracebacks', {})
        if tbs:
            tb = tb + '\n-- in worker --\n' + '\n'.join(tbs.values())
        out['detail'] = f'{type(err).__name__}: {err}'
        out['where'] = _where(tb)
        out['traceback'] = tb[-1800:]
    finally:
        fs.uninstall()
        if shim is not None:
            shim.terminate_all()
    try:
        out['alloc_failures'] = os.path.getsize(mem_note)
    except OSError:
        out['alloc_failures'] = 0
    trace = sim['trace'] if run['mode'] == 'pool' else fs.log
    out['trace_len'] = len(trace)
    out['trace_digest'] = seeds.digest(trace)
    out['schedule_sig'] = seeds.digest([(t[1], t[3]) for t in trace]) if run['mode'] == 'pool' else 'seq'
    out['choices'] = sim['choices']
    out['sim_time'] = clock.sim_elapsed
    out['fs_ops'] = _count_ops(trace)
    return out


def _count_ops(trace):
    c = {}
    for t in trace:
        c[t[3]] = c.get(t[3], 0) + 1
    return c


def _where(tb):
    """The innermost TotalDepth function named in a traceback (for known-finding facts)."""
    names = []
    for line in tb.splitlines():
        line = line.strip()
        if line.startswith('File "') and '/TotalDepth/' in line and ', in ' in line:
            mod = line.split('/TotalDepth/')[1].split('"')[0]
            names.append(mod.replace('.py', '').replace('/', '.') + ':' + line.rsplit(', in ', 1)[1])
    return names[-1] if names else ''


def read_tree(out_dir):
    """{relpath: normalised text} with the creation-time line removed."""
    tree = {}
    if not os.path.isdir(out_dir):
        return tree
    for dirpath, dirnames, filenames in os.walk(out_dir):
        dirnames.sort()
        for n in sorted(filenames):
            p = os.path.join(dirpath, n)
            with open(p, 'rb') as f:
                by = f.read()
            lines = by.split(b'\n')
            lines = [ln for ln in lines if not ln.startswith(b'CREA.')]
            tree[os.path.relpath(p, out_dir)] = b'\n'.join(lines)
    return tree


class BatchRun:
    """Materialises the tree once and executes runs, each in its own forked child."""

    def __init__(self, scenario):
        from sim import runner
        self.runner = runner
        self.scenario = scenario
        self.root = os.path.join(simbuild.scratch_root(), f'tdsim-{os.getpid()}')
        shutil.rmtree(self.root, ignore_errors=True)
        os.makedirs(os.path.join(self.root, 'in'))
        self.meta = materialise(scenario['files'], os.path.join(self.root, 'in'))
        self.inputs = list_inputs(os.path.join(self.root, 'in'), scenario['recurse'])
        self.budget = step_budget_for([m['size'] for m in self.meta.values()])

    def run(self, name, run, alone=None):
        spec = {'root': self.root, 'name': name, 'run': run, 'scenario': self.scenario, 'budget': self.budget,
                'n_files': len(self.inputs), 'alone': alone, 'env': self.scenario.get('env')}
        res = self.runner.exec_in_child(_run_in_child, spec, timeout=100.0)
        if 'harness_error' in res:
            raise RuntimeError('batch run failed in the harness: ' + res['harness_error'])
        if self.scenario.get('out_inside'):
            inside = os.path.join(self.root, 'in', self.scenario['out_inside'])
            res['tree'] = read_tree(inside)
            shutil.rmtree(inside, ignore_errors=True)        # the input tree is pristine again for the next run
        else:
            res['tree'] = read_tree(os.path.join(self.root, name, 'out'))
        return res

    def cleanup(self):
        shutil.rmtree(self.root, ignore_errors=True)
