"""LIS-79 physical layer: independent producer, layout map and reference reader (DESIGN 2.3).

Written from the LIS-79 description of physical records (header: 16 bit length including header
and trailer, 16 bit attributes; optional trailer: record number, file number, checksum) and of
TIF markers (three 32 bit little-endian words: type, previous, next; two type-1 markers at EOF).

Model::

    {'prlen': max physical record length, 'rec': bool, 'file': int|None, 'chk': bool,
     'tif': 'none' | 'normal' | 'reversed',
     'records': [{'key': int, 'len': int, 'payload': optional hex, 'chunks': optional [int] }]}

``chunks`` (payload bytes per physical record) defaults to greedy filling, which is what a writer
does; explicit chunks model files produced by other writers.
"""
import hashlib
import struct

PRH = 4
TIF = 12


def payload_bytes(rec) -> bytes:
    if rec.get('payload_raw') is not None:
        return bytes(rec['payload_raw'])
    if rec.get('payload') is not None:
        return bytes.fromhex(rec['payload'])
    n = rec['len']
    return hashlib.shake_128(f'lis:{rec["key"]}'.encode()).digest(n)


def trailer_len(model) -> int:
    return (2 if model['rec'] else 0) + (2 if model['file'] is not None else 0) + (2 if model['chk'] else 0)


def max_payload(model) -> int:
    return model['prlen'] - PRH - trailer_len(model)


def chunks_of(model, rec, n):
    if rec.get('chunks'):
        assert sum(rec['chunks']) == n and all(0 < c <= max_payload(model) for c in rec['chunks'])
        return list(rec['chunks'])
    mp = max_payload(model)
    out = []
    while n > 0:
        c = min(mp, n)
        out.append(c)
        n -= c
    return out


def lis_checksum(by: bytes) -> int:
    """The value of the 16 bit checksum trailer: over all bytes of the physical record before it, taken as 16 bit words with
    the FIRST byte of each pair the low one, add with end-around carry then rotate left by one; written most significant
    byte first.  No text of the standard is available offline; this form is the one that reproduces all 110 checksum
    trailers of the repository's own field file example_data/LIS/data/DILLSON-1_WELL_LOGS_FILE-049.LIS (selftest re-checks
    that), which makes it a reference independent of the code under test."""
    c = 0
    for i in range(0, len(by) - 1, 2):
        c += (by[i + 1] << 8) | by[i]
        c = (c & 0xffff) + (c >> 16)
        c = ((c << 1) | (c >> 15)) & 0xffff
    return c


def shape_checksum(model, targets=(0xffff, 0x0000, 0xfffe, 0x0001)):
    """Boundary values for the checksum trailer: the last two payload bytes of every logical record that the writer will put
    into ONE physical record (greedy layout, no record-number trailer, even length) are chosen so that the checksum of that
    physical record is one of the targets (all ones, zero and their neighbours).  Returns the number of records shaped."""
    if not model['chk'] or model['rec']:
        return 0
    done = 0
    for k, rec in enumerate(model['records']):
        pay = bytearray(payload_bytes(rec))
        if len(pay) < 4 or len(pay) % 2 or len(pay) > max_payload(model):
            continue
        attr = (1 << 12) | ((1 << 10) if model['file'] is not None else 0)
        plen = PRH + len(pay) + trailer_len(model)
        head = struct.pack('>HH', plen, attr) + bytes(pay[:-2])
        tail = struct.pack('>H', model['file']) if model['file'] is not None else b''
        c0 = 0
        for i in range(0, len(head) - 1, 2):
            c0 += (head[i + 1] << 8) | head[i]
            c0 = (c0 & 0xffff) + (c0 >> 16)
            c0 = ((c0 << 1) | (c0 >> 15)) & 0xffff
        want = targets[k % len(targets)]
        for w in range(65536):
            c = c0 + w
            c = (c & 0xffff) + (c >> 16)
            c = ((c << 1) | (c >> 15)) & 0xffff
            if tail:
                c += (tail[1] << 8) | tail[0]
                c = (c & 0xffff) + (c >> 16)
                c = ((c << 1) | (c >> 15)) & 0xffff
            if c == want:
                pay[-2], pay[-1] = w & 0xff, w >> 8
                rec.pop('key', None)
                rec['payload'] = bytes(pay).hex()
                rec['len'] = len(pay)
                done += 1
                break
    return done


def build(model, tif=None, rec_start=None):
    """Returns (bytes, layout).  layout = {'records': [{'pos', 'payload', 'end', 'prs': [{'pos' (of TIF marker or PRH),
    'prh', 'len', 'data_pos', 'data_len', 'chk_pos'}]}], 'mask': [(pos, n)] bytes whose value is not compared}"""
    tif = model['tif'] if tif is None else tif
    assert model['prlen'] <= 65535 and max_payload(model) >= 1
    out = bytearray()
    layout = {'records': [], 'mask': [], 'recnum_pos': [], 'chk_pos': [], 'fields': []}
    recnum = model.get('rec_start', 0) if rec_start is None else rec_start
    prev_marker = 0
    markers = []

    def put_marker(typ, length):
        nonlocal prev_marker
        pos = len(out)
        nxt = pos + TIF + length
        back = markers[-1] if markers else 0
        fmt = '>3L' if tif == 'reversed' else '<3L'
        out.extend(struct.pack(fmt, typ, back, nxt))
        markers.append(pos)
        layout['fields'].append((pos, 12, 'tif'))

    marks_after = set(model.get('marks_after') or [])
    for rec in model['records']:
        pay = payload_bytes(rec)
        assert len(pay) >= 1
        cks = chunks_of(model, rec, len(pay))
        rl = {'pos': len(out), 'payload': pay, 'prs': []}
        off = 0
        for k, c in enumerate(cks):
            attr = 0
            if k < len(cks) - 1:
                attr |= 1 << 0
            if k > 0:
                attr |= 1 << 1
            if model['rec']:
                attr |= 1 << 9
            if model['file'] is not None:
                attr |= 1 << 10
            if model['chk']:
                attr |= 1 << 12
            plen = PRH + c + trailer_len(model)
            start = len(out)
            # LIS-79 2.3.1.1: a tape block may be padded "to guarantee a minimum record size"; on a TIF-marked image the next
            # word of the marker skips the padding (model['tif_pad'] = ['min', n] | ['align', n]; only files for C20 have it)
            pad = 0
            tp = model.get('tif_pad')
            if tif != 'none' and tp:
                pad = max(0, tp[1] - plen) if tp[0] == 'min' else (-plen) % tp[1]
            if tif != 'none':
                put_marker(0, plen + pad)
            prh = len(out)
            body = bytearray(struct.pack('>HH', plen, attr))
            body += pay[off:off + c]
            pr = {'pos': start, 'prh': prh, 'len': plen, 'data_pos': prh + PRH, 'data_len': c}
            if model['rec']:
                layout['recnum_pos'].append(prh + len(body))
                layout['mask'].append((prh + len(body), 2))
                body += struct.pack('>H', recnum & 0xffff)
                recnum += 1
            if model['file'] is not None:
                body += struct.pack('>H', model['file'])
            if model['chk']:
                layout['chk_pos'].append(prh + len(body))
                body += struct.pack('>H', lis_checksum(bytes(body)))
            assert len(body) == plen
            out += body
            if pad:
                out += (b'\x00' if model['tif_pad'][2] == 'null' else b'\x20') * pad
            layout['fields'].append((prh, 2, 'pr.len'))
            layout['fields'].append((prh + 2, 2, 'pr.attr'))
            pr['end'] = len(out)
            rl['prs'].append(pr)
            off += c
        rl['end'] = len(out)
        layout['records'].append(rl)
        if tif != 'none' and (len(layout['records']) - 1) in marks_after:
            put_marker(1, 0)          # a single tape mark: end of one logical file on a multi-file tape image
    if tif != 'none':
        put_marker(1, 0)
        put_marker(1, 0)
    return bytes(out), layout


def masked(by: bytes, mask) -> bytes:
    b = bytearray(by)
    for pos, n in mask:
        b[pos:pos + n] = b'\x00' * n
    return bytes(b)


# --------------------------------------------------------------------------------------------
class RefError(Exception):
    pass


def ref_read(by: bytes):
    """Independent strict reader: returns (tif mode, [ {pos, payload, n_prs} ])."""
    tif = 'none'
    if len(by) >= 12:
        t, b, n = struct.unpack('<3L', by[:12])
        if t == 0 and b == 0:
            tif = 'reversed' if n > 0xffff + 12 else 'normal'
    fmt = '>3L' if tif == 'reversed' else '<3L'
    pos = 0
    recs = []
    cur = None
    prev_marker = None
    expect_next = None
    while pos < len(by):
        start = pos
        if tif != 'none':
            if pos + 12 > len(by):
                raise RefError(f'torn TIF marker at {pos}')
            t, b, n = struct.unpack(fmt, by[pos:pos + 12])
            if expect_next is not None and pos != expect_next:
                raise RefError(f'TIF chain: at {pos}, previous marker said {expect_next}')
            if prev_marker is not None and b != prev_marker:
                raise RefError(f'TIF back pointer {b} at {pos}, previous marker at {prev_marker}')
            prev_marker, expect_next = pos, n
            pos += 12
            if t == 1:
                if n != pos:
                    raise RefError(f'EOF marker with payload at {start}')
                continue
            if t != 0:
                raise RefError(f'TIF type {t} at {start}')
        if pos + 4 > len(by):
            raise RefError(f'torn PRH at {pos}')
        plen, attr = struct.unpack('>HH', by[pos:pos + 4])
        tl = (2 if attr & (1 << 9) else 0) + (2 if attr & (1 << 10) else 0) + (2 if attr & (1 << 12) else 0)
        if plen < 4 + tl or pos + plen > len(by):
            raise RefError(f'bad PR length {plen} at {pos}')
        data = by[pos + 4:pos + plen - tl]
        pred, succ = bool(attr & 2), bool(attr & 1)
        if not pred:
            if cur is not None:
                raise RefError(f'PR without predecessor inside a record at {pos}')
            cur = {'pos': start, 'payload': bytearray(), 'n_prs': 0}
        elif cur is None:
            raise RefError(f'PR with predecessor at record start at {pos}')
        cur['payload'] += data
        cur['n_prs'] += 1
        if not succ:
            cur['payload'] = bytes(cur['payload'])
            recs.append(cur)
            cur = None
        pos += plen
        if tif != 'none' and expect_next != pos:
            raise RefError(f'TIF next {expect_next} but PR ends at {pos}')
    if cur is not None:
        raise RefError('file ends inside a logical record')
    return tif, recs


# --------------------------------------------------------------------------------------------
def gen_model(rng, max_records=12):
    rec = rng.chance(0.35)
    filen = rng.pick([None, None, 0, 1, 7, 255, 65535])
    chk = rng.chance(0.35)
    tl = (2 if rec else 0) + (2 if filen is not None else 0) + (2 if chk else 0)
    lo = PRH + tl + 1
    prlen = rng.wpick([(3, rng.randrange(lo, lo + 12)), (3, rng.randrange(lo, 80)), (2, rng.randrange(lo, 1025)),
                       (1, rng.pick([1024, 4096, 8192, 65535])), (1, rng.randrange(lo, 65536))])
    tif = rng.wpick([(4, 'none'), (4, 'normal'), (2, 'reversed')])
    model = {'prlen': prlen, 'rec': rec, 'file': filen, 'chk': chk, 'tif': tif, 'records': []}
    if rec and rng.chance(0.3):
        # record numbers of a file that continues a numbering (they are 16 bit and wrap)
        model['rec_start'] = rng.pick([65530, 65534, 65535, 32767, 1, 65500])
    mp = max_payload(model)
    nrec = rng.wpick([(2, rng.randrange(1, 3)), (5, rng.randrange(2, 7)), (2, rng.randrange(4, max_records + 1))])
    budget = 60000
    for r in range(nrec):
        kind = rng.wpick([(2, 'tiny'), (3, 'one'), (4, 'few'), (2, 'edge'), (1, 'many')])
        if kind == 'tiny':
            n = rng.randrange(2, 6)
        elif kind == 'one':
            n = rng.randrange(2, max(3, mp + 1))
        elif kind == 'few':
            n = rng.randrange(mp + 1, max(mp + 2, 4 * mp + 1))
        elif kind == 'edge':
            n = max(2, rng.randrange(1, 4) * mp + rng.pick([-1, 0, 0, 1]))
        else:
            n = rng.randrange(4 * mp, 12 * mp + 2)
        n = max(2, min(n, budget // max(1, nrec - r), 20000))
        rec_m = {'key': rng.getrandbits(32), 'len': n}
        if rng.chance(0.3):
            # a file produced by another writer: physical records not filled greedily
            cks, left = [], n
            while left > 0:
                c = min(left, rng.randrange(1, mp + 1))
                cks.append(c)
                left -= c
            if len(cks) <= 400:
                rec_m['chunks'] = cks
        model['records'].append(rec_m)
        budget -= n + (n // mp + 1) * (PRH + tl + (12 if tif != 'none' else 0))
        if budget < 100:
            break
    if rng.chance(0.04):
        # boundary: a first physical record of (almost) the largest legal size, where the TIF 'next' word exceeds 16 bits
        model['prlen'] = rng.pick([65535, 65535, 65534, 65530, 65524, 65523, 65520])
        first = {'key': rng.getrandbits(32), 'len': max_payload(model) + rng.pick([0, 0, 1, 5, -1, -3])}
        model['records'] = [first] + [{'key': r['key'], 'len': min(r['len'], 300)} for r in model['records'][:3]]
    if rng.chance(0.015):
        # boundary: a file WITHOUT markers whose first twelve bytes read as a TIF marker (type 0 or 1, back pointer 0): a first
        # physical record of 256 bytes with no trailer and attributes 0, whose data begin with four zero bytes
        model.update(tif='none', rec=False, file=None, chk=False, prlen=rng.pick([256, 512, 1024, 4096]))
        model.pop('rec_start', None)
        body = hashlib.shake_128(f'lookalike:{rng.getrandbits(32)}'.encode()).digest(248)
        first = {'payload': (b'\x00\x00\x00\x00' + body).hex(), 'len': 252}
        model['records'] = [first] + [{'key': r['key'], 'len': min(r['len'], 300)} for r in model['records'][:3] if 'key' in r]
    fix_reversed(model)
    return model


def fix_reversed(model):
    """Reversed TIF files whose first marker's two byte orders are indistinguishable are outside the
    property (first 'next' word 0x100 or 0x10000): fall back to normal TIF for those."""
    if model['tif'] == 'reversed':
        rec = model['records'][0]
        first = chunks_of(model, rec, len(payload_bytes(rec)))[0]
        plen = PRH + first + trailer_len(model)
        tp = model.get('tif_pad')
        if tp:
            plen += max(0, tp[1] - plen) if tp[0] == 'min' else (-plen) % tp[1]
        nxt = 12 + plen
        if nxt in (0x100, 0x10000) or nxt <= 0:
            model['tif'] = 'normal'
