"""Minimal LAS 1.2 / 2.0 text from a content model (C12 foreign files, C20 healthy files)."""


def text(model) -> str:
    v = model['version']
    out = []
    for c in model.get('lead_comments', []):
        out.append('# ' + c)
    out.append('~VERSION INFORMATION' if model.get('long_titles') else '~V')
    pad = ' ' * model.get('pad', 1)
    if v == '1.2':
        out.append(f' VERS.{pad}1.2:   CWLS LOG ASCII STANDARD - VERSION 1.2')
    else:
        out.append(f' VERS.{pad}2.0 :   CWLS LOG ASCII STANDARD - VERSION 2.0')
    out.append(f' WRAP.{pad}NO  :   ONE LINE PER DEPTH STEP')
    out.append('~WELL INFORMATION' if model.get('long_titles') else '~W')
    rows = model['rows']
    x0 = rows[0][0] if rows else 0.0
    x1 = rows[-1][0] if rows else 0.0
    step = (x1 - x0) / (len(rows) - 1) if len(rows) > 1 else 0.0
    out.append(f' STRT.M   {x0:.4f} : START DEPTH')
    out.append(f' STOP.M   {x1:.4f} : STOP DEPTH')
    out.append(f' STEP.M   {step:.4f} : STEP')
    out.append(' NULL.    -999.25 : NULL VALUE')
    out.append(f' WELL.    {model.get("well", "ANY WELL #12")} : WELL')
    out.append('~CURVE INFORMATION' if model.get('long_titles') else '~C')
    for name, unit in model['curves']:
        out.append(f' {name}.{unit}   : {name} curve')
    out.append('~A ' + ' '.join(n for n, _ in model['curves']))
    for r in rows:
        out.append(' '.join(f'{x:12.4f}' for x in r))
    return '\n'.join(out) + '\n'


def gen_model(rng, max_rows=40):
    ncurves = rng.randrange(1, 6)
    names = ['DEPT'] + rng.sample(['GR', 'CALI', 'NPHI', 'RHOB', 'DT', 'SP', 'ILD', 'TENS'], ncurves)
    nrows = rng.wpick([(1, 1), (4, rng.randrange(2, max_rows + 1))])
    x0 = rng.pick([100.0, 1670.0, 2889.4, 0.0])
    step = rng.pick([0.5, -0.125, 0.1524, 1.0])
    rows = [[x0 + i * step] + [rng.uniform(-10, 200) for _ in names[1:]] for i in range(nrows)]
    return {'version': rng.pick(['1.2', '2.0']), 'curves': [(n, rng.pick(['M', 'GAPI', 'IN', '', 'G/C3'])) for n in names], 'rows': rows,
            'long_titles': rng.chance(0.5), 'pad': rng.randrange(1, 12), 'lead_comments': ['comment'] * rng.randrange(0, 3)}


def token_fields(by: bytes):
    """(pos, n, name) of the key tokens of the version section: the version number, the ~V section name, the wrap flag."""
    import re
    out = []
    for m in re.finditer(rb'VERS\s*\.\s+([\d.]+)|(~V\S*)|WRAP\s*\.\s+(\S+)', by[:600]):
        g = next(i for i in (1, 2, 3) if m.group(i) is not None)
        out.append((m.start(g), m.end(g) - m.start(g), 'las.token'))
    return out
