"""RP66V1 physical layer: independent producer, layout map and reference reader (DESIGN 2.3).

Written from the standard (API RP66 V1, sections 2.2.2 and 2.3), not from TotalDepth's code.

Model (JSON-serialisable)::

    {'sul': {'seq': '   1', 'maxlen': '08192', 'ident': '<60 chars>'},
     'trail': bool,                       # trailing length on every segment of the file, or none
     'records': [{'eflr': bool, 'type': 0..255, 'enc': bool, 'key': int,
                  'payload': optional hex (else derived from key and total length),
                  'segs': [{'n': data bytes, 'pad': pad bytes (0 = none), 'chk': bool, 'newvr': bool}]}]}

``build(model)`` repairs nothing silently except the one thing the minimiser relies on: a segment
starts a new visible record when it would not fit in the current one.
"""
import hashlib

SUL_SIZE = 80
VR_HEAD = 4
SEG_HEAD = 4
SEG_MIN = 16
VR_VERSION = b'\xff\x01'


def payload_bytes(rec) -> bytes:
    if rec.get('payload_raw') is not None:
        return bytes(rec['payload_raw'])
    if 'payload' in rec and rec['payload'] is not None:
        return bytes.fromhex(rec['payload'])
    n = sum(s['n'] for s in rec['segs'])
    return hashlib.shake_128(f'rec:{rec["key"]}'.encode()).digest(n) if n else b''


def seg_length(seg, trail: bool) -> int:
    return SEG_HEAD + seg['n'] + seg['pad'] + (2 if seg['chk'] else 0) + (2 if trail else 0)


def maxlen_of(model) -> int:
    return int(model['sul']['maxlen'])


def sul_bytes(sul) -> bytes:
    by = (sul['seq'] + 'V1.00' + 'RECORD' + sul['maxlen'] + sul['ident']).encode('ascii')
    assert len(by) == SUL_SIZE, len(by)
    return by


def checksum16(by: bytes) -> int:
    """RP66V1 appendix: 16 bit cyclic checksum (computed; readers in scope never verify it)."""
    c = 0
    for i in range(0, len(by) - 1, 2):
        t = by[i] | (by[i + 1] << 8)
        c += t
        if c & 0x10000:
            c = (c + 1) & 0xffff
        c <<= 1
        if c & 0x10000:
            c = (c + 1) & 0xffff
    return c & 0xffff


def validate_model(model) -> None:
    """Raises AssertionError if the model is outside the conformant sub-language."""
    mx = maxlen_of(model)
    assert 20 <= mx <= 16384
    assert len(model['records']) >= 1
    for rec in model['records']:
        assert 0 <= rec['type'] <= 255
        assert len(rec['segs']) >= 1
        for seg in rec['segs']:
            ln = seg_length(seg, model['trail'])
            assert ln % 2 == 0, ('odd segment', seg)
            assert ln >= SEG_MIN, ('short segment', seg)
            assert ln <= mx - VR_HEAD, ('segment larger than visible record', seg, mx)
            assert 0 <= seg['pad'] <= 255
            if rec['enc']:
                assert seg['pad'] == 0


def build(model):
    """Returns (file bytes, layout).  layout = {'records': [{'vr_pos', 'lrsh_pos', 'payload': bytes,
    'segs': [{'vr_pos','vr_len','lrsh_pos','len','data_pos','data_len'}], 'vr_extents': [(s, e)]}],
    'vrs': [(pos, len)], 'boundaries': [...]}"""
    validate_model(model)
    mx = maxlen_of(model)
    trail = model['trail']
    out = bytearray(sul_bytes(model['sul']))
    layout = {'records': [], 'vrs': [], 'fields': [(0, 4, 'sul.seq'), (4, 5, 'sul.ver'), (9, 6, 'sul.struct'),
                                                   (15, 5, 'sul.maxlen'), (20, 60, 'sul.ident')]}
    vr_start = None
    vr_len = 0

    def close_vr():
        nonlocal vr_start, vr_len
        if vr_start is not None:
            out[vr_start:vr_start + 2] = vr_len.to_bytes(2, 'big')
            layout['vrs'].append((vr_start, vr_len))
        vr_start = None
        vr_len = 0

    def open_vr():
        nonlocal vr_start, vr_len
        vr_start = len(out)
        out.extend(b'\x00\x00' + VR_VERSION)
        layout['fields'].append((vr_start, 2, 'vr.len'))
        layout['fields'].append((vr_start + 2, 2, 'vr.ver'))
        vr_len = VR_HEAD

    seg_records = []
    for ri, rec in enumerate(model['records']):
        pay = payload_bytes(rec)
        rl = {'payload': pay, 'segs': [], 'eflr': rec['eflr'], 'type': rec['type'], 'enc': rec['enc']}
        off = 0
        nseg = len(rec['segs'])
        for si, seg in enumerate(rec['segs']):
            ln = seg_length(seg, trail)
            if vr_start is None or seg.get('newvr') or vr_len + ln > mx:
                close_vr()
                open_vr()
            attr = 0
            if rec['eflr']:
                attr |= 0x80
            if si != 0:
                attr |= 0x40       # has predecessor
            if si != nseg - 1:
                attr |= 0x20       # has successor
            if rec['enc']:
                attr |= 0x10
            if seg['chk']:
                attr |= 0x04
            if trail:
                attr |= 0x02
            if seg['pad'] or seg.get('padbit'):
                attr |= 0x01
            if seg.get('epk'):
                attr |= 0x08       # has encryption packet (part of the encrypted body: nothing a reader can remove)
            pos = len(out)
            body = bytearray()
            body += ln.to_bytes(2, 'big') + bytes([attr, rec['type']])
            data = pay[off:off + seg['n']]
            assert len(data) == seg['n']
            off += seg['n']
            body += data
            if seg['pad']:
                # pad bytes: the last one is the pad count (which counts itself)
                body += bytes([(0x50 + k) & 0xff for k in range(seg['pad'] - 1)]) + bytes([seg['pad']])
            if seg['chk']:
                body += checksum16(bytes(body)).to_bytes(2, 'big')
            if trail:
                body += ln.to_bytes(2, 'big')
            assert len(body) == ln
            out += body
            vr_len += ln
            layout['fields'].append((pos, 2, 'seg.len'))
            layout['fields'].append((pos + 2, 1, 'seg.attr'))
            layout['fields'].append((pos + 3, 1, 'seg.type'))
            rl['segs'].append({'vr_index': len(layout['vrs']), 'lrsh_pos': pos, 'len': ln,
                               'data_pos': pos + SEG_HEAD, 'data_len': seg['n'], 'vr_start': vr_start})
        assert off == len(pay)
        layout['records'].append(rl)
    close_vr()
    # resolve VR extents
    for rl in layout['records']:
        idx = sorted({s['vr_index'] for s in rl['segs']})
        rl['vr_extents'] = [(layout['vrs'][k][0], layout['vrs'][k][0] + layout['vrs'][k][1]) for k in idx]
        rl['vr_pos'] = layout['vrs'][rl['segs'][0]['vr_index']][0]
        rl['lrsh_pos'] = rl['segs'][0]['lrsh_pos']
        rl['n_vrs'] = len(idx)
    return bytes(out), layout


# --------------------------------------------------------------------------------------------
# Independent reference reader of the physical layer (model validation, DESIGN 2.3)
class RefError(Exception):
    pass


def ref_read(by: bytes, tolerant: bool = False):
    """Returns (sul dict, [ {eflr, type, enc, payload, vr_pos, lrsh_pos} ]).  Strict unless ``tolerant``:
    then a file torn inside a visible record yields the records complete before the tear."""
    if len(by) < SUL_SIZE:
        raise RefError('short SUL')
    sul = {'seq': by[0:4].decode('ascii'), 'ver': by[4:9].decode('ascii'), 'struct': by[9:15].decode('ascii'),
           'maxlen': by[15:20].decode('ascii'), 'ident': by[20:80].decode('latin1')}
    pos = SUL_SIZE
    recs = []
    cur = None
    while pos < len(by):
        if pos + 4 > len(by):
            raise RefError(f'torn VR header at {pos}')
        vlen = int.from_bytes(by[pos:pos + 2], 'big')
        if by[pos + 2:pos + 4] != VR_VERSION:
            raise RefError(f'bad VR version at {pos}')
        if vlen < 20 or vlen > 16384:
            raise RefError(f'bad VR length {vlen} at {pos}')
        if pos + vlen > len(by):
            if tolerant:
                return sul, recs
            raise RefError(f'VR of length {vlen} at {pos} runs past EOF')
        p = pos + 4
        end = pos + vlen
        while p < end:
            slen = int.from_bytes(by[p:p + 2], 'big')
            attr = by[p + 2]
            typ = by[p + 3]
            if slen < 16 or slen % 2 or p + slen > end:
                raise RefError(f'bad segment length {slen} at {p}')
            first = not (attr & 0x40)
            last = not (attr & 0x20)
            body_end = p + slen
            if attr & 0x02:
                if int.from_bytes(by[body_end - 2:body_end], 'big') != slen:
                    raise RefError(f'trailing length mismatch at {p}')
                body_end -= 2
            if attr & 0x04:
                body_end -= 2
            data = by[p + 4:body_end]
            if (attr & 0x01) and not (attr & 0x10):
                pc = data[-1]
                if pc < 1 or pc > len(data):
                    raise RefError(f'bad pad count {pc} at {p}')
                data = data[:-pc]
            if first:
                if cur is not None:
                    raise RefError(f'first segment inside a record at {p}')
                cur = {'eflr': bool(attr & 0x80), 'type': typ, 'enc': bool(attr & 0x10), 'payload': bytearray(),
                       'vr_pos': pos, 'lrsh_pos': p}
            else:
                if cur is None:
                    raise RefError(f'continuation segment without a first at {p}')
                if cur['type'] != typ or cur['eflr'] != bool(attr & 0x80):
                    raise RefError(f'segment type changes inside a record at {p}')
            cur['payload'] += data
            if last:
                cur['payload'] = bytes(cur['payload'])
                recs.append(cur)
                cur = None
            p += slen
        pos = end
    if cur is not None:
        raise RefError('file ends inside a record')
    return sul, recs


# --------------------------------------------------------------------------------------------
# Generator
IDENTS = ['Default Storage Set', 'CUSTOMER', 'PRODUCER', 'DLIS ATLAS 1', '', 'x' * 60,
          'Set #7 ~ {odd} [chars] | \\ ^', ' leading blank']


def gen_sul(rng, maxlen=None):
    seq = rng.wpick([(4, 1), (2, rng.randrange(1, 10)), (2, rng.pick([10, 20, 100, 101, 110, 1000, 9000, 9999])),
                     (2, rng.randrange(1, 10000))])
    seq_s = str(seq)
    seq_f = rng.pick([seq_s.rjust(4), seq_s.zfill(4)])
    if maxlen is None:
        maxlen = rng.wpick([(4, 8192), (3, 16384), (2, rng.pick([20, 22, 24, 32, 64, 100, 128, 256, 1000, 1024, 4096, 10000, 16000])),
                            (3, rng.randrange(10, 8193) * 2)])
    ml_s = str(maxlen)
    ml_f = rng.pick([ml_s.rjust(5), ml_s.zfill(5)])
    if rng.chance(0.3):
        ident = ''.join(chr(rng.randrange(0x20, 0x7f)) for _ in range(60))
    else:
        ident = rng.pick(IDENTS).ljust(60)[:60]
    return {'seq': seq_f, 'maxlen': ml_f, 'ident': ident}


def _split_lengths(rng, total, k):
    """k positive parts summing to total (total >= k)."""
    if k == 1:
        return [total]
    cuts = sorted(rng.sample(range(1, total), k - 1))
    return [b - a for a, b in zip([0] + cuts, cuts + [total])]


def gen_segments(rng, total, maxlen, trail, enc, style):
    """Cut a payload of ``total`` bytes into conformant segments.  style: 'one', 'few', 'many', 'tiny'.
    Returns None when this (total, style, enc) cannot be cut conformantly; the caller retries."""
    seg_cap = maxlen - VR_HEAD - SEG_HEAD      # data + pad + checksum + trailing length of one segment
    tr = 2 if trail else 0
    segs = []
    if enc:
        # encrypted: never padded (DESIGN C01), so every segment's data is even and >= 12 - extras.
        if total % 2 or total < 12:
            return None
        remaining = total
        while remaining > 0:
            chk = rng.chance(0.25)
            extra = tr + (2 if chk else 0)
            room = (seg_cap - extra) & ~1
            lo = max(2, 12 - extra)
            if room < lo:
                return None
            if style == 'one':
                n = room
            elif style == 'few':
                n = rng.randrange(max(lo, room // 3), room + 1)
            elif style == 'many':
                n = rng.randrange(lo, max(lo + 1, min(room, 200) + 1))
            else:
                n = rng.randrange(lo, max(lo + 1, min(room, 24) + 1))
            n &= ~1
            n = max(lo, min(n, room, remaining))
            if 0 < remaining - n < 12:
                # the tail would be too short to stand alone: take it all or leave >= 12
                if remaining <= room:
                    n = remaining
                elif remaining - 12 >= lo:
                    n = (remaining - 12) & ~1
                else:
                    return None
            seg = {'n': n, 'pad': 0, 'chk': chk, 'newvr': False}
            # an encrypted segment may announce an encryption packet and pad bytes; both are inside the encrypted body, so
            # they stay in the payload (the pad count cannot be read)
            if rng.chance(0.5):
                seg['epk'] = True
            if rng.chance(0.3):
                seg['padbit'] = True
            segs.append(seg)
            remaining -= n
        return segs
    remaining = total
    first = True
    while first or remaining > 0:
        first = False
        chk = rng.chance(0.25)
        extra = tr + (2 if chk else 0)
        room = seg_cap - extra        # max n + pad
        if style == 'one':
            want = room
        elif style == 'few':
            want = rng.randrange(max(1, room // 3), max(2, room + 1))
        elif style == 'many':
            want = rng.randrange(1, max(2, min(room, 200) + 1))
        else:
            want = rng.randrange(1, 14)
        n = min(remaining, want, room)
        if n == room and (n + extra) % 2:
            n -= 1  # no room for the one pad byte that parity would need
        pad = max(0, 12 - (n + extra))
        if (n + pad + extra) % 2:
            pad += 1
        if rng.chance(0.15):
            # gratuitous extra padding (an even amount keeps parity); pad counts up to 255
            more = 2 * rng.small(1, 6) if rng.chance(0.8) else 2 * rng.randrange(1, 120)
            if pad + more <= 255 and n + pad + more <= room:
                pad += more
        while n + pad > room and n > 0:
            n -= 1
            pad = max(0, 12 - (n + extra))
            if (n + pad + extra) % 2:
                pad += 1
        if n + pad > room or (n <= 0 and remaining > 0):
            return None
        segs.append({'n': n, 'pad': pad, 'chk': chk, 'newvr': False})
        remaining -= n
    return segs


def gen_model(rng, max_records=40, max_payload=None, tier='quick'):
    sul = gen_sul(rng)
    maxlen = int(sul['maxlen'])
    trail = rng.chance(0.25)
    nrec = rng.wpick([(3, rng.randrange(1, 4)), (4, rng.randrange(2, 12)), (2, rng.randrange(5, max_records + 1))])
    seg_cap = maxlen - VR_HEAD - SEG_HEAD
    records = []
    budget = 65536
    pack = rng.wpick([(3, 'greedy'), (2, 'one'), (3, 'random')])
    for r in range(nrec):
        enc = rng.chance(0.1)
        every = rng.chance(0.04)           # a record with every optional attribute switched on in every segment
        if every:
            enc = True
        style = rng.wpick([(3, 'one'), (3, 'few'), (3, 'many'), (2, 'tiny')])
        if every:
            style = rng.pick(['few', 'many', 'many', 'tiny'])
        cap = min(budget // max(1, nrec - r), 3 * maxlen + 50)
        size_kind = rng.wpick([(1, 'zero'), (3, 'small'), (3, 'segcap'), (3, 'big')])
        if size_kind == 'zero':
            total = 0
        elif size_kind == 'small':
            total = rng.randrange(1, 40)
        elif size_kind == 'segcap':
            total = max(0, seg_cap + rng.randrange(-6, 7))
        else:
            total = rng.randrange(1, max(2, cap))
        total = min(total, cap)
        shredded = r == 0 and rng.chance(0.012)
        if shredded:
            # one long record cut into more than a thousand minimal segments (a logical record may span any number of visible
            # records; 1024 is only how many minimal segments ONE visible record can hold)
            style, total = 'tiny', rng.randrange(19000, 30000) & ~1
        if style == 'tiny' and not shredded:
            total = min(total, 400)
        if style == 'many':
            total = min(total, 6000)
        if enc and total < 12:
            total = 12
        if enc and total % 2:
            total += 1
        segs = None
        for attempt in range(8):
            segs = gen_segments(rng, total, maxlen, trail, enc, style)
            if segs is not None:
                break
            style = 'one' if attempt > 3 else style
        if segs is None:
            enc = False
            segs = gen_segments(rng, total, maxlen, trail, False, 'one')
        if segs is None:
            segs = [{'n': 0, 'pad': 12 - (2 if trail else 0), 'chk': False, 'newvr': False}]
        if not enc and len(segs) >= 1 and total > 0 and rng.chance(0.04):
            # a writer that flushes an empty buffer: a segment that is not the last and holds nothing but pad bytes
            empty = {'n': 0, 'pad': 0, 'chk': rng.chance(0.25), 'newvr': False}
            fix_seg(empty, trail, False)
            segs.insert(rng.randrange(0, len(segs)), empty)
        for s in segs:
            if pack == 'one':
                s['newvr'] = True
            elif pack == 'random':
                s['newvr'] = rng.chance(0.4)
        if every and enc:
            for s in segs:
                s['epk'] = s['padbit'] = True
                if not s['chk'] and s['n'] >= 4:
                    s['chk'] = True
                    s['n'] -= 2
        budget -= sum(seg_length(s, trail) for s in segs)
        records.append({'eflr': rng.chance(0.6 if every else 0.4), 'type': rng.wpick([(3, 0), (2, rng.randrange(0, 12)), (1, rng.randrange(0, 256))] if not every else [(1, rng.randrange(0, 6))]),
                        'enc': enc, 'key': rng.getrandbits(32), 'segs': segs})
        if budget < 200:
            break
    return {'sul': sul, 'trail': trail, 'records': records}


# --------------------------------------------------------------------------------------------
# Reducers over the physical model (DESIGN 2.8)
def fix_seg(seg, trail, enc):
    """Recompute the minimal conformant padding of a segment after its data length changed."""
    extra = (2 if trail else 0) + (2 if seg['chk'] else 0)
    n = seg['n']
    if enc:
        seg['pad'] = 0
        return (n + extra) % 2 == 0 and n + extra >= 12
    pad = max(0, 12 - (n + extra))
    if (n + pad + extra) % 2:
        pad += 1
    seg['pad'] = pad
    return True


def _copy(model):
    import copy
    return copy.deepcopy(model)


def buildable(model) -> bool:
    try:
        validate_model(model)
        return True
    except (AssertionError, ValueError, KeyError):
        return False


def phys_candidates(model):
    """Yields simpler physical models (record indices preserved unless 'drop' is in the tag).
    Each item is (tag, new_model, dropped_record_index or None)."""
    recs = model['records']
    # drop records
    if len(recs) > 1:
        for r in range(len(recs) - 1, -1, -1):
            m = _copy(model)
            del m['records'][r]
            yield ('drop', m, r)
    # collapse a record to one segment
    for r, rec in enumerate(recs):
        if len(rec['segs']) > 1 and 'payload' not in rec:
            m = _copy(model)
            total = sum(s['n'] for s in rec['segs'])
            seg = {'n': total, 'pad': 0, 'chk': False, 'newvr': False}
            if fix_seg(seg, m['trail'], rec['enc']):
                m['records'][r]['segs'] = [seg]
                if buildable(m):
                    yield ('collapse', m, None)
    # merge two adjacent segments
    for r, rec in enumerate(recs):
        if len(rec['segs']) > 2:
            for k in range(len(rec['segs']) - 1):
                m = _copy(model)
                a, b = m['records'][r]['segs'][k], m['records'][r]['segs'][k + 1]
                seg = {'n': a['n'] + b['n'], 'pad': 0, 'chk': a['chk'], 'newvr': a['newvr']}
                if fix_seg(seg, m['trail'], rec['enc']):
                    m['records'][r]['segs'][k:k + 2] = [seg]
                    if buildable(m):
                        yield ('merge', m, None)
    # shrink payloads (stamped payloads only)
    for r, rec in enumerate(recs):
        if 'payload' in rec:
            continue
        total = sum(s['n'] for s in rec['segs'])
        if total > 1:
            for factor in (0, 2):
                m = _copy(model)
                ok = True
                for s in m['records'][r]['segs']:
                    s['n'] = 0 if factor == 0 else s['n'] // 2
                    if rec['enc']:
                        s['n'] = max(12, s['n'] & ~1)
                    ok = ok and fix_seg(s, m['trail'], rec['enc'])
                if factor == 0:
                    m['records'][r]['segs'] = m['records'][r]['segs'][:1]
                if ok and buildable(m) and m != model:
                    yield ('shrink', m, None)
    # strip optional layout features
    if model['trail']:
        m = _copy(model)
        m['trail'] = False
        if all(fix_seg(s, False, rec['enc']) for rec in m['records'] for s in rec['segs']) and buildable(m):
            yield ('notrail', m, None)
    if any(s['chk'] for rec in recs for s in rec['segs']):
        m = _copy(model)
        ok = True
        for rec in m['records']:
            for s in rec['segs']:
                s['chk'] = False
                ok = ok and fix_seg(s, m['trail'], rec['enc'])
        if ok and buildable(m):
            yield ('nochk', m, None)
    if any(s['pad'] for rec in recs for s in rec['segs']):
        m = _copy(model)
        ok = all(fix_seg(s, m['trail'], rec['enc']) for rec in m['records'] for s in rec['segs'])
        if ok and buildable(m) and m != model:
            yield ('minpad', m, None)
    if any(s['newvr'] for rec in recs for s in rec['segs']):
        m = _copy(model)
        for rec in m['records']:
            for s in rec['segs']:
                s['newvr'] = False
        yield ('greedyvr', m, None)
    if any(rec['enc'] for rec in recs):
        for r, rec in enumerate(recs):
            if rec['enc']:
                m = _copy(model)
                m['records'][r]['enc'] = False
                if buildable(m):
                    yield ('noenc', m, None)
    plain = {'seq': '   1', 'maxlen': model['sul']['maxlen'], 'ident': 'Default Storage Set'.ljust(60)}
    if model['sul'] != plain:
        m = _copy(model)
        m['sul'] = plain
        yield ('plainsul', m, None)
    if model['sul']['maxlen'] not in ('08192', '16384'):
        for ml in ('08192', '16384'):
            m = _copy(model)
            m['sul']['maxlen'] = ml
            if buildable(m):
                yield ('maxlen', m, None)
                break
