"""RP66V1 logical layer: independent producer of logical files (FILE-HEADER, ORIGIN, optional PARAMETER
set, CHANNEL, FRAME, interleaved frame-data IFLRs) on top of the physical producer (DESIGN 2.3).

EFLR component encoding written from RP66 V1 section 3.2.2 (descriptor byte: role in bits 8-6,
characteristics L C R U V in bits 5-1) and the representation codes of appendix B.

Model (JSON)::

    {'sul': {...}, 'trail': bool, 'layout': {'seed': int, 'style': 'mixed'|'one', 'pack': 'greedy'|'one'|'random'},
     'lfs': [{'id': str, 'origin': int, 'well': str, 'params': [[name, value, long-name]],
              'channels': [{'name', 'rep', 'dims': [..], 'units', 'long'}],
              'frames': [{'name': 'FR1', 'channels': [index into channels], 'rows': [{'fno': int, 'bits': [[int per element] per channel]}]}],
              'order': [frame type index per IFLR, in file order; -k-1 = an empty IFLR of frame type k]}]}
"""
import struct

import numpy as np

from worlds import dlis_phys as P
from sim import seeds

# rep codes
FSINGL, ISINGL, FDOUBL = 2, 5, 7
SSHORT, SNORM, SLONG, USHORT, UNORM, ULONG = 12, 13, 14, 15, 16, 17
UVARI, IDENT, ASCII, DTIME, ORIGIN, OBNAME, OBJREF, STATUS, UNITS = 18, 19, 20, 21, 22, 23, 24, 26, 27
FRAME_CODES = [FSINGL, ISINGL, FDOUBL, SSHORT, SNORM, SLONG, USHORT, UNORM, ULONG]
CODE_SIZE = {FSINGL: 4, ISINGL: 4, FDOUBL: 8, SSHORT: 1, SNORM: 2, SLONG: 4, USHORT: 1, UNORM: 2, ULONG: 4}
CODE_DTYPE = {FSINGL: np.float32, ISINGL: np.float32, FDOUBL: np.float64, SSHORT: np.int8, SNORM: np.int16, SLONG: np.int32,
              USHORT: np.uint8, UNORM: np.uint16, ULONG: np.uint32}


# ------------------------------------------------------------------------------------------------
# encoders (appendix B)
def e_uvari(v: int) -> bytes:
    if v < 0x80:
        return bytes([v])
    if v < 0x4000:
        return struct.pack('>H', 0x8000 | v)
    assert v < 0x40000000
    return struct.pack('>L', 0xC0000000 | v)


def e_ident(s) -> bytes:
    b = s if isinstance(s, bytes) else s.encode('ascii')
    assert len(b) < 256
    return bytes([len(b)]) + b


def e_ascii(s) -> bytes:
    b = s if isinstance(s, bytes) else s.encode('ascii')
    return e_uvari(len(b)) + b


def e_obname(o, c, i) -> bytes:
    return e_uvari(o) + bytes([c]) + e_ident(i)


def e_dtime(y, tz, mo, d, h, mi, s, ms) -> bytes:
    return bytes([y - 1900, (tz << 4) | mo, d, h, mi, s]) + struct.pack('>H', ms)


def e_value(rep, v) -> bytes:
    if rep == IDENT or rep == UNITS:
        return e_ident(v)
    if rep == ASCII:
        return e_ascii(v)
    if rep == UVARI or rep == ORIGIN:
        return e_uvari(v)
    if rep == USHORT or rep == STATUS:
        return bytes([v])
    if rep == UNORM:
        return struct.pack('>H', v)
    if rep == ULONG:
        return struct.pack('>L', v)
    if rep == SLONG:
        return struct.pack('>l', v)
    if rep == FSINGL:
        return struct.pack('>f', v)
    if rep == FDOUBL:
        return struct.pack('>d', v)
    if rep == OBNAME:
        return e_obname(*v)
    if rep == DTIME:
        return e_dtime(*v)
    raise ValueError(f'no encoder for rep code {rep}')


def e_bits(rep, bits: int) -> bytes:
    return int(bits).to_bytes(CODE_SIZE[rep], 'big')


NUMERIC_CODES = (FSINGL, FDOUBL, SSHORT, SNORM, SLONG, USHORT, UNORM, ULONG, UVARI, ORIGIN, STATUS)


def encode_set(set_type, set_name, template, objects, marks=None) -> bytes:
    """template: [(label, count, rep, units)]; objects: [((o, c, ident), [list of values | None per attribute])]
    marks: a list that receives (offset, length, name) of every stored attribute value ('val#...' numeric, 'val...' text)."""
    out = bytearray()
    out += bytes([0xF8]) + e_ident(set_type) + e_ident(set_name)          # SET: type + name
    for label, count, rep, units in template:
        d = 0x20 | 0x10 | 0x04
        body = e_ident(label)
        if count != 1:
            d |= 0x08
            body += e_uvari(count)
        body += bytes([rep])
        if units:
            d |= 0x02
            body += e_ident(units)
        out += bytes([d]) + body
    for name, values in objects:
        out += bytes([0x70]) + e_obname(*name)
        assert len(values) == len(template)
        for (label, count, rep, units), val in zip(template, values):
            if val is None:
                out += bytes([0x00])                                  # absent attribute
                continue
            if len(val) != count:
                out += bytes([0x29])                                  # count + value
                if marks is not None:
                    marks.append((len(out), 1, f'val#.{set_type}.{label}.count'))
                out += e_uvari(len(val))
            else:
                out += bytes([0x21])                                  # value only
            for v in val:
                ev = e_value(rep, v)
                if marks is not None and ev:
                    marks.append((len(out), len(ev), ('val#.' if rep in NUMERIC_CODES else 'val.') + f'{set_type}.{label}'))
                out += ev
    return bytes(out)


# ------------------------------------------------------------------------------------------------
# reference decode of frame values
def ref_value(rep, bits):
    """numpy scalar of the channel's dtype holding the value the standard defines for these bits."""
    if rep == FSINGL:
        return np.array([bits], dtype=np.uint32).view(np.float32)[0]
    if rep == FDOUBL:
        return np.array([bits], dtype=np.uint64).view(np.float64)[0]
    if rep == ISINGL:
        from worlds.bit import ibm_decode
        return np.float32(ibm_decode(bits))
    if rep in (SSHORT, SNORM, SLONG):
        n = 8 * CODE_SIZE[rep]
        v = bits - (1 << n) if bits >> (n - 1) else bits
        return CODE_DTYPE[rep](v)
    return CODE_DTYPE[rep](bits)


def gen_bits(rng, rep, x_hint=None):
    """A well-defined bit pattern for the code (no NaN/denormal/reserved patterns: those are C07's business)."""
    if rep == FSINGL:
        v = x_hint if x_hint is not None else rng.wpick([(10, rng.uniform(-5000, 5000)), (2, 0.0), (1, -0.0), (2, rng.uniform(-1, 1) * 1e-3), (2, rng.uniform(-1, 1) * 1e6)])
        return struct.unpack('>L', struct.pack('>f', v))[0]
    if rep == FDOUBL:
        v = x_hint if x_hint is not None else rng.wpick([(10, rng.uniform(-5000, 5000)), (2, 0.0), (1, -0.0), (2, rng.uniform(-1, 1) * 1e-9), (2, rng.uniform(-1, 1) * 1e12)])
        return struct.unpack('>Q', struct.pack('>d', v))[0]
    if rep == ISINGL:
        from worlds.bit import ibm_encode, gen_word
        return ibm_encode(x_hint) if x_hint is not None else gen_word(rng)
    n = 8 * CODE_SIZE[rep]
    if x_hint is not None:
        v = int(x_hint)
        if rep in (SSHORT, SNORM, SLONG):
            v = max(-(1 << (n - 1)), min((1 << (n - 1)) - 1, v))
            return v & ((1 << n) - 1)
        return max(0, min((1 << n) - 1, v))
    return rng.wpick([(6, rng.getrandbits(n)), (1, 0), (1, (1 << n) - 1), (1, 1 << (n - 1))])


# ------------------------------------------------------------------------------------------------
ORIGIN_TEMPLATE = [('FILE-ID', 1, ASCII, ''), ('FILE-SET-NAME', 1, IDENT, ''), ('FILE-SET-NUMBER', 1, UVARI, ''), ('FILE-NUMBER', 1, UVARI, ''),
                   ('FILE-TYPE', 1, IDENT, ''), ('PRODUCT', 1, ASCII, ''), ('VERSION', 1, ASCII, ''), ('PROGRAMS', 1, ASCII, ''),
                   ('CREATION-TIME', 1, DTIME, ''), ('ORDER-NUMBER', 1, ASCII, ''), ('DESCENT-NUMBER', 1, ASCII, ''), ('RUN-NUMBER', 1, ASCII, ''),
                   ('WELL-ID', 1, ASCII, ''), ('WELL-NAME', 1, ASCII, ''), ('FIELD-NAME', 1, ASCII, ''), ('PRODUCER-CODE', 1, UNORM, ''),
                   ('PRODUCER-NAME', 1, ASCII, ''), ('COMPANY', 1, ASCII, ''), ('NAME-SPACE-NAME', 1, IDENT, ''), ('NAME-SPACE-VERSION', 1, UVARI, '')]
CHANNEL_TEMPLATE = [('LONG-NAME', 1, ASCII, ''), ('PROPERTIES', 1, IDENT, ''), ('REPRESENTATION-CODE', 1, USHORT, ''), ('UNITS', 1, UNITS, ''),
                    ('DIMENSION', 1, UVARI, ''), ('AXIS', 1, OBNAME, ''), ('ELEMENT-LIMIT', 1, UVARI, ''), ('SOURCE', 1, OBJREF, '')]
FRAME_TEMPLATE = [('DESCRIPTION', 1, ASCII, ''), ('CHANNELS', 1, OBNAME, ''), ('INDEX-TYPE', 1, IDENT, ''), ('DIRECTION', 1, IDENT, ''),
                  ('SPACING', 1, FDOUBL, ''), ('ENCRYPTED', 1, USHORT, ''), ('INDEX-MIN', 1, FDOUBL, ''), ('INDEX-MAX', 1, FDOUBL, '')]
PARAM_TEMPLATE = [('LONG-NAME', 1, ASCII, ''), ('DIMENSION', 1, UVARI, ''), ('AXIS', 1, OBNAME, ''), ('ZONES', 1, OBNAME, ''), ('VALUES', 1, ASCII, '')]


def logical_records(model):
    """Returns the list of logical records [{'eflr', 'type', 'raw' bytes, 'what': tag}] and per logical file the
    reference content."""
    recs = []
    ref = []
    for li, lf in enumerate(model['lfs']):
        o = lf['origin']
        lf_ref = {'first_record': len(recs), 'frames': []}
        mk = []
        fh = encode_set('FILE-HEADER', str(li), [('SEQUENCE-NUMBER', 1, ASCII, ''), ('ID', 1, ASCII, '')],
                        [((o, 0, str(li)), [[f'{li + 1:>10}'], [lf['id'].ljust(65)[:65]]])], mk)
        recs.append({'eflr': True, 'type': 0, 'raw': fh, 'what': ('FILE-HEADER', li), 'marks': mk})
        ct = lf.get('ctime', [2015, 0, 8, 16, 4, 57, 12, 0])
        org = encode_set('ORIGIN', '', ORIGIN_TEMPLATE, [((o, 0, 'DLIS_DEFINING_ORIGIN'), [
            [lf['id']], [''], [1], [li + 1], ['DEPTH-LOG'], ['verif'], ['v0'], None, [tuple(ct)], ['0000'], None, ['1'], None,
            [lf.get('well', 'WELL 1')], [lf.get('field', 'FIELD')], [440], ['Producer'], [lf.get('company', 'COMPANY')], ['PF'], None])], mk := [])
        recs.append({'eflr': True, 'type': 1, 'raw': org, 'what': ('ORIGIN', li), 'marks': mk})
        if lf.get('params'):
            objs = [((o, 0, p[0]), [[p[2]], None, None, None, [p[1]]]) for p in lf['params']]
            recs.append({'eflr': True, 'type': 5, 'raw': encode_set('PARAMETER', '', PARAM_TEMPLATE, objs, mk := []), 'what': ('PARAMETER', li), 'marks': mk})
        chans = lf['channels']
        cobjs = []
        # the order in which the CHANNEL set defines its objects is independent of the order in which frames record them
        order_ = lf.get('chan_order') or list(range(len(chans)))
        for ch in [chans[i_] for i_ in order_]:
            cobjs.append(((o, 0, ch['name']), [[ch.get('long', ch['name'])], None, [ch['rep']], [ch.get('units', '')] if ch.get('units') is not None else None,
                                              list(ch['dims']), None, list(ch['dims']), None]))
        recs.append({'eflr': True, 'type': 3, 'raw': encode_set('CHANNEL', '', CHANNEL_TEMPLATE, cobjs, mk := []), 'what': ('CHANNEL', li), 'marks': mk})
        fobjs = []
        for fr in lf['frames']:
            fobjs.append(((o, 0, fr['name']), [[fr.get('desc', '')] if fr.get('desc') is not None else None,
                                              [(o, 0, chans[c]['name']) for c in fr['channels']], ['BOREHOLE-DEPTH'], None, None, None, None, None]))
        recs.append({'eflr': True, 'type': 4, 'raw': encode_set('FRAME', '', FRAME_TEMPLATE, fobjs, mk := []), 'what': ('FRAME', li), 'marks': mk})
        counters = [0] * len(lf['frames'])
        for fr in lf['frames']:
            lf_ref['frames'].append({'name': fr['name'], 'channels': [chans[c] for c in fr['channels']], 'rows': [], 'records': []})
        for k in lf['order']:
            empty = k < 0
            ft = -k - 1 if empty else k
            fr = lf['frames'][ft]
            head = e_obname(o, 0, fr['name'])
            if empty:
                recs.append({'eflr': False, 'type': 0, 'raw': head + e_uvari(0), 'what': ('EMPTY-IFLR', li, ft)})
                continue
            row = fr['rows'][counters[ft]]
            counters[ft] += 1
            body = bytearray(head + e_uvari(row['fno']))
            for c, bits in zip(fr['channels'], row['bits']):
                rep = chans[c]['rep']
                for b in bits:
                    body += e_bits(rep, b)
            lf_ref['frames'][ft]['rows'].append(row)
            lf_ref['frames'][ft]['records'].append(len(recs))
            recs.append({'eflr': False, 'type': 0, 'raw': bytes(body), 'what': ('IFLR', li, ft)})
        assert all(counters[i] == len(fr['rows']) for i, fr in enumerate(lf['frames'])), 'order does not consume every row'
        ref.append(lf_ref)
    return recs, ref


def build(model):
    """Returns (bytes, layout) where layout extends the physical layout with 'lfs' (reference content, record indices)."""
    recs, ref = logical_records(model)
    lay = model['layout']
    maxlen = int(model['sul']['maxlen'])
    trail = model['trail']
    prs = []
    for i, r in enumerate(recs):
        rng = seeds.Rng(seeds.derive('layout', lay['seed'], i))
        style = 'one' if lay['style'] == 'one' else rng.wpick([(3, 'one'), (3, 'few'), (2, 'many'), (1, 'tiny')])
        total = len(r['raw'])
        if style == 'tiny' and total > 300:
            style = 'many'
        segs = None
        for attempt in range(6):
            segs = P.gen_segments(rng, total, maxlen, trail, False, style if attempt < 4 else 'one')
            if segs is not None:
                break
        assert segs is not None, 'cannot segment'
        if lay['pack'] == 'one':
            for s in segs:
                s['newvr'] = True
        elif lay['pack'] == 'random':
            for s in segs:
                s['newvr'] = rng.chance(0.35)
        if lay['style'] == 'one':
            for s in segs:
                s['chk'] = False
                P.fix_seg(s, trail, False)
        prs.append({'eflr': r['eflr'], 'type': r['type'], 'enc': False, 'key': 0, 'payload_raw': r['raw'], 'segs': segs})
    pm = {'sul': model['sul'], 'trail': trail, 'records': prs}
    by, layout = P.build(pm)
    layout['lfs'] = ref
    layout['what'] = [r['what'] for r in recs]
    # the stored attribute values of the metadata records, as file positions (a value may straddle two segments: its first
    # byte decides)
    for r, rl in zip(recs, layout['records']):
        for off, ln, name in r.get('marks', ()):
            acc = 0
            for sg in rl['segs']:
                if off < acc + sg['data_len']:
                    layout['fields'].append((sg['data_pos'] + off - acc, min(ln, acc + sg['data_len'] - off), name))
                    break
                acc += sg['data_len']
    return by, layout


# ------------------------------------------------------------------------------------------------
# some names differ only in surrounding blanks or in case: they are different channels
CH_NAMES = ['DEPT', 'TIME', 'GR', 'CAL', 'TENS', 'RHOB', 'NPHI', 'TDEP', 'INDEX', 'WF1', 'IMG', 'SP', 'ILD', 'GR ', ' GR', 'gr', 'SP  ']
UNITS_POOL = ['m', 'ft', 's', 'gAPI', 'in', 'lbf', 'g/cm3', '', '0.1 in', 'ms']


def gen_lf(rng, li, max_frames=30, names_pool=None, origin=None, waves=False):
    pool = list(names_pool or CH_NAMES)
    rng.shuffle(pool)
    nft = rng.wpick([(6, 1), (3, 2), (1, 3)])
    channels = []
    frames = []
    used = 0
    for ft in range(nft):
        nch = rng.wpick([(2, 1), (5, rng.randrange(2, 5)), (2, rng.randrange(4, 7))])
        idx = []
        for c in range(nch):
            if used < len(pool):
                name = pool[used]
            else:
                name = f'CH{used}'
            used += 1
            rep = rng.pick(FRAME_CODES) if c else rng.wpick([(4, FSINGL), (3, FDOUBL), (1, ISINGL), (1, SLONG), (1, ULONG), (1, UNORM)])
            if c == 0:
                dims = [1]
                if waves and rng.chance(0.3):
                    # a frame type without an index channel (RP66V1 5.7.1: the index is then the frame number): the first channel
                    # is an ordinary one, possibly a waveform or an image
                    dims = rng.wpick([(2, [rng.randrange(2, 6)]), (2, [rng.randrange(30, 72)]), (1, [rng.randrange(72, 300)]), (1, [rng.randrange(2, 9), rng.randrange(2, 9)])])
            elif waves and rng.chance(0.15):
                dims = rng.wpick([(4, [rng.randrange(30, 72)]), (2, [rng.randrange(72, 300)]), (2, [rng.randrange(4, 12), rng.randrange(4, 12)]),
                                  (1, [rng.pick([512, 511, 513, 1024, rng.randrange(500, 1100)])]), (1, [rng.pick([4, 8, 16]), rng.pick([128, 64, 130])])])
            else:
                dims = rng.wpick([(6, [1]), (2, [rng.randrange(2, 6)]), (1, [rng.randrange(2, 4), rng.randrange(2, 4)]), (1, [1, 1])])
            channels.append({'name': name, 'rep': rep, 'dims': dims, 'units': rng.pick(UNITS_POOL), 'long': name + ' long name'})
            idx.append(len(channels) - 1)
        nrows = rng.wpick([(1, 1), (2, rng.randrange(2, 5)), (5, rng.randrange(min(3, max_frames), max_frames + 1))])
        if any(len(channels[c]['dims']) > 1 or channels[c]['dims'][0] > 29 for c in idx):
            nrows = min(nrows, 8)
        if any(np.prod(channels[c]['dims']) > 400 for c in idx):
            nrows = min(nrows, 3)
        # -999.25 / -999 are ordinary numbers in RP66V1 (the format has no absent value): an X axis may pass through them
        x0 = rng.pick([100.0, 2889.4, 0.0, 5000.0, 12.5, 100.0, 0.0, -999.25, -1000.0, -999.0])
        xi0 = rng.pick([1000, 1000, 1000, -999, -1009, 0])
        # a coarse or stuck index (whole seconds at 2.5 Hz, a station log) repeats its value from frame to frame
        dx = rng.pick([0.5, 1.5, -0.25, 0.1524, 1.0, 10.0, 0.5, 1.0, 0.0])
        # frame numbers are UVARI: 1, 2 or 4 bytes, changing at 128 and 16384; logs do not all start at frame 1
        fno = rng.wpick([(10, 1), (2, 0), (2, 7), (2, rng.randrange(120, 129)), (3, rng.randrange(16376, 16385)), (1, (1 << 30) - 200)])
        # producers that do not maintain the frame number write the same one (0 or 1) into every record
        stuck_fno = rng.chance(0.06)
        if stuck_fno:
            fno = rng.pick([0, 1, 1])
        rows = []
        for r in range(nrows):
            bits = []
            for k, c in enumerate(idx):
                ch = channels[c]
                count = 1
                for d in ch['dims']:
                    count *= d
                if k == 0:
                    bits.append([gen_bits(rng, ch['rep'], x_hint=x0 + r * dx if ch['rep'] in (FSINGL, FDOUBL, ISINGL) else max(0, xi0 + r * 10) if ch['rep'] in (ULONG, UNORM, USHORT) else xi0 + r * 10) for _ in range(count)])
                else:
                    bits.append([gen_bits(rng, ch['rep']) for _ in range(count)])
            rows.append({'fno': fno, 'bits': bits})
            fno += 0 if stuck_fno else rng.wpick([(8, 1), (1, 2), (1, 5)])
        # object names are IDENTs of up to 255 characters; long ones make the head of every frame record long
        long_name = rng.pick(['MAIN_PASS_DEPTH_LOG_FRAME_', 'REPEAT_SECTION_TIME_INDEXED_FRAME_TYPE_NUMBER_', 'F' * 60, 'WAVEFORM-' * 12])
        frames.append({'name': (rng.pick(['FR', '60B', '10B', 'F', '0.1524M', 'FRAME.', 'A B']) if not rng.chance(0.1) else long_name) + str(ft + 1), 'desc': rng.pick(['', 'main', None]), 'channels': idx, 'rows': rows})
    # interleave
    order = []
    left = [len(f['rows']) for f in frames]
    while any(left):
        k = rng.wpick([(l, i) for i, l in enumerate(left) if l])
        order.append(k)
        left[k] -= 1
        if rng.chance(0.04):
            order.append(-rng.randrange(len(frames)) - 1)
    params = []
    if rng.chance(0.5):
        # names from the RP66V1 parameter vocabulary the converter maps, names it does not know, and names that mean something
        # else in the TARGET format (the mnemonics of the LAS well section): a parameter is data, whatever it is called
        pool = ['LOC ', 'COUN', 'STAT', 'NATI', 'APIN', 'UWI ', 'LATI', 'LONG', 'XYZ', 'LOC', 'STRT', 'STOP', 'STEP', 'NULL', 'WELL', 'COMP', 'FLD', 'SRVC', 'DATE',
                'CNTY', 'CTRY', 'PROV', 'API', 'UWI', 'VERS', 'WRAP']
        for nm in rng.sample(pool, rng.randrange(1, 5)):
            params.append([nm, rng.pick(['NORTH SEA', '15/17-9', 'UK', '  padded  ', 'a b c', '1234.5', '0.5', '-999.25']), nm.strip() + ' description'])
    chan_order = None
    if rng.chance(0.3):
        chan_order = list(range(len(channels)))
        rng.shuffle(chan_order)
    return {'chan_order': chan_order, 'id': rng.pick(['MAIN PASS', 'REPEAT', 'auto_las_survey', 'X']) + f' {li}', 'origin': origin if origin is not None else rng.pick([1, 11, 41, 200]),
            'well': rng.pick(['PRASLIN 1', 'WELL #7', '29/10-3']), 'params': params, 'channels': channels, 'frames': frames, 'order': order}


def gen_model(rng, max_frames=30, names_pool=None, max_lfs=3, waves=False):
    sul = P.gen_sul(rng, maxlen=rng.wpick([(4, 8192), (2, 16384), (2, rng.pick([256, 512, 1024, 4096])), (1, rng.randrange(100, 8193) * 2)]))
    nlf = rng.wpick([(6, 1), (3, min(2, max_lfs)), (1, max_lfs)])
    return {'sul': sul, 'trail': rng.chance(0.2),
            'layout': {'seed': rng.getrandbits(32), 'style': rng.wpick([(3, 'mixed'), (1, 'one')]), 'pack': rng.wpick([(3, 'greedy'), (1, 'one'), (2, 'random')])},
            'lfs': [gen_lf(rng, li, max_frames, names_pool, waves=waves) for li in range(nlf)]}
